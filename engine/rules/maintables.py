"""Decision table of the command-line front end (machine.py): `ruschm FILE` for the three outcomes of evaluating the file."""
import re
from . import absint, machine, mir
from .absint import Enum, UNKNOWN
from .machine import NOT, Machine, ok, err, some, none, Sink, Text, Hole


class T:
    def __init__(self, tag):
        self.tag = tag

    def __repr__(self):
        return "<%s>" % self.tag


def main_table(fb):
    main = fb.find("main", crate="bin")
    rows = []
    for scenario in ("ok", "ok-with-value", "error-with-location", "error-without-location"):
        E = T("error-message")
        vi_ = dict((n, i) for i, n in fb.variants("values::Value"))
        ni_ = dict((n, i) for i, n in fb.variants("values::Number"))
        num_ = Enum(ni_["Integer"], [40])
        num_.name, num_.adt = "Integer", "values::Number"
        lastv = Enum(vi_["Number"], [num_])
        lastv.name, lastv.adt = "Number", "values::Value"
        errv = Enum(0, [E, some([12, 34]) if scenario == "error-with-location" else none()])
        errv.name, errv.adt = "Located", "error::Located"
        sinks = {}
        ev = []

        def icpt(mc, c, a, tt, g):
            end = c.rsplit("::", 1)[-1]
            if c.endswith("env::args"):
                return T("args")
            if end in ("nth", "skip", "next") and a and isinstance(a[0], T) and a[0].tag == "args":
                return some("prog.scm")
            if c.endswith("Interpreter::default") or c.endswith("Interpreter::new") or c.endswith("Interpreter::new_with_stdlib") or \
                    (end == "default" and "Interpreter" in c):
                return T("interpreter")
            if c.endswith("Interpreter::eval_file"):
                ev.append(("eval_file", a[1] if len(a) > 1 else None))
                # (ok-with-value: the program's last form is an expression with a value, which eval_file hands back)
                return ok(none()) if scenario == "ok" else (ok(some(lastv)) if scenario == "ok-with-value" else err(errv))
            if c.endswith("repl::run") or c.endswith("repl::run_with_interpreter"):
                ev.append(("repl",))
                return []
            if c.endswith("StandardStream::stderr") or c.endswith("io::stderr") or c.endswith("BufferWriter::stderr"):
                s = sinks.setdefault("stderr", Sink())
                return s
            if c.endswith("StandardStream::stdout") or c.endswith("io::stdout") or c.endswith("BufferWriter::stdout"):
                s = sinks.setdefault("stdout", Sink())
                return s
            if c.endswith("io::_print") or c.endswith("io::_eprint"):
                s = sinks.setdefault("stdout" if c.endswith("_print") else "stderr", Sink())
                if a and isinstance(a[0], machine.FmtArguments):
                    s.parts.append(mc.render(a[0]))
                return []
            if "ColorSpec" in c or c.endswith("WriteColor>::set_color") or c.endswith("WriteColor>::reset") or c.endswith("Write>::flush"):
                return ok([]) if end in ("set_color", "reset", "flush") else T("colorspec")
            if c.endswith("process::exit"):
                ev.append(("exit", a[0] if a else None))
                return UNKNOWN
            if ("PathBuf" in c or "path::Path" in c) and end in ("from", "new", "as_ref", "to_path_buf"):
                return a[0]
            return NOT
        mc = Machine(fb, intercept=icpt, max_visits=4, budget=400, crate="bin")
        try:
            res = mc.run(main, [])
        except (absint.Stuck, absint.Loop) as e:
            rows.append((scenario, {"stuck": str(e)}))
            continue
        rows.append((scenario, {"result": res, "events": ev, "stderr": sinks["stderr"].text() if "stderr" in sinks else None,
                                "stdout": sinks["stdout"].text() if "stdout" in sinks else None, "E": E,
                                "panics": [e for e in mc.events if e[0] == "panic"]}))
    return main, rows


def _has(v, x, d=6):
    if v is x:
        return True
    if isinstance(v, Enum):
        return d > 0 and any(_has(y, x, d - 1) for y in v.fields)
    return isinstance(v, list) and d > 0 and any(_has(y, x, d - 1) for y in v)


def _flat(t, E=None):
    """text with holes written as {..}; the hole that prints the error (or its message) is {error-message}"""
    if t is None:
        return None
    if isinstance(t, str):
        return t
    return "".join(p if isinstance(p, str) else ("{error-message}" if E is not None and _has(p.value, E) else "{%s}" % getattr(p.value, "tag", "?"))
                   for p in t.parts)


def rule_main(ctx, rule_exit, rule_stderr):
    fb = ctx.fb()
    from .ctx import where_of
    main, rows = main_table(fb)
    decided = 0
    for scenario, d in rows:
        key = "main/%s" % scenario
        if "stuck" in d:
            ctx.undecided(rule_exit, key, "cannot follow main (%s)" % d["stuck"], where_of(main))
            continue
        decided += 1
        exits = [e[1] for e in d["events"] if e[0] == "exit"]
        files = [e[1] for e in d["events"] if e[0] == "eval_file"]
        err_txt, out_txt = _flat(d["stderr"], d["E"]), _flat(d["stdout"], d["E"])
        ctx.inst(rule_exit, key, {"exit_calls": exits, "stderr": err_txt, "stdout": out_txt})
        if files != ["prog.scm"]:
            ctx.report(rule_exit, key + "/file", "`ruschm prog.scm` evaluates %s, expected the file named on the command line once" % files, where_of(main))
        if scenario in ("ok", "ok-with-value"):
            good = not exits and not err_txt and not out_txt and getattr(d["result"], "name", None) in ("Ok", None)
            ctx.oblige(good)
            if exits:
                ctx.report(rule_exit, key + "/exit", "a program that evaluates without error ends with process::exit(%s)" % exits, where_of(main))
            if err_txt or out_txt:
                ctx.report(rule_stderr, key + "/output", "a program that evaluates without error makes the front end itself print %r / %r" % (err_txt, out_txt), where_of(main))
        else:
            nz = bool(exits) and all(isinstance(c, int) and not isinstance(c, bool) and c != 0 for c in exits)
            returns_err = getattr(d["result"], "name", None) == "Err"
            ctx.oblige(nz or returns_err)
            if not (nz or returns_err):
                ctx.report(rule_exit, key + "/exit", "when evaluation fails the process ends with %s (result %r); expected a non-zero exit status" % (
                    exits or "no exit call", d["result"]), where_of(main))
            pat = r"prog\.scm:12:34 +\{error-message\}\n" if scenario == "error-with-location" else r"prog\.scm.*\{error-message\}\n"
            good = err_txt is not None and re.fullmatch(pat, err_txt, re.S) is not None and not out_txt
            ctx.oblige(good)
            if out_txt:
                ctx.report(rule_stderr, key + "/stdout", "the diagnostic (or part of it) goes to standard output: %r" % out_txt, where_of(main))
            elif not good:
                ctx.report(rule_stderr, key + "/format", "the diagnostic written to standard error is %r; expected `prog.scm%s MESSAGE` and a newline" % (
                    err_txt, ":12:34" if scenario == "error-with-location" else ""), where_of(main))
    return decided


# ------------------------------------------------------------------------------------------------ Interpreter::eval


def eval_flow_table(fb):
    """Interpreter::eval with the character-level reader, the form reader and the evaluation of one form as scripted events.  The
    script is a list of tokens; the (stubbed) parser turns one token into one form, pulling it from whatever token source it was
    constructed with — so both a reader that is drained ahead of evaluation and a tokenizer that is drained ahead of parsing show
    up in the order of the events `lex k`, `read k`, `eval S`."""
    ITP = "interpreter::interpreter::Interpreter::"
    f = fb.find(ITP + "eval")
    fields = [x["name"] for x in fb.adt("interpreter::interpreter::Interpreter")["variants"][0]["fields"]]
    rows = []
    V1, V2 = T("value-1"), T("value-2")
    RE, EE, LE = T("read-error"), T("evaluation-error"), T("lexical-error")
    scenarios = [
        ("two-values", [("S1", ok(some(V1))), ("S2", ok(some(V2)))]),
        ("value-then-definition", [("S1", ok(some(V1))), ("S2", ok(none()))]),
        ("form-then-read-error", [("S1", ok(some(V1))), ("READ-ERROR", None), ("S3", ok(some(V2)))]),
        ("form-then-lexical-error", [("S1", ok(some(V1))), ("LEX-ERROR", None), ("S3", ok(some(V2)))]),
        ("evaluation-error-then-form", [("S1", err(EE)), ("S2", ok(some(V2)))]),
        ("empty", []),
    ]
    for name, script in scenarios:
        ev = []
        forms = {}
        lpos = [0]
        src = [None]
        flags_seen = []

        class _P(Enum):
            pass
        pfields = [x["name"] for x in fb.adt("parser::parser::Parser")["variants"][0]["fields"]]
        ptok = _P(0, [T("fresh-syntax-env-of-the-parser") if n_ == "syntax_env" else (none() if n_ in ("current", "location") else UNKNOWN) for n_ in pfields])
        ptok.adt, ptok.name = "parser::parser::Parser", "Parser"
        ltok = _P(0, [])
        ltok.adt, ltok.name = "parser::lexer::Lexer", "Lexer"

        def icpt(mc, c, a, tt, g, script=script, ev=ev, forms=forms, lpos=lpos, ptok=ptok, ltok=ltok, src=src):
            end = c.rsplit("::", 1)[-1]
            if c.endswith("Lexer::from_char_stream") or (("lexer::Lexer" in c) and end in ("new", "from", "from_char_stream")):
                return ltok
            if "lexer::Lexer" in c and end == "next" and a and a[0] is ltok:
                k = lpos[0]
                lpos[0] += 1
                ev.append(("lex", k))
                if k >= len(script):
                    return none()
                tag = script[k][0]
                return some(err(LE)) if tag == "LEX-ERROR" else some(ok(T("token-of-" + tag)))
            if c.endswith("Parser::from_lexer") or (("parser::Parser" in c) and end in ("new", "from", "from_lexer", "from_char_stream")):
                src[0] = a[0] if a else None
                return ptok
            if "parser::Parser" in c and end == "next" and a and a[0] is ptok:
                ev.append(("read", sum(1 for e in ev if e[0] == "read")))
                item = mc.step(src[0]) if src[0] is not None else NOT
                if item is NOT or not isinstance(item, Enum):
                    return UNKNOWN
                if item.variant == 0:
                    return none()
                tokres = item.fields[0]
                if isinstance(tokres, Enum) and getattr(tokres, "name", None) == "Err" or (isinstance(tokres, Enum) and tokres.variant == 1 and tokres.fields and tokres.fields[0] is LE):
                    return some(err(tokres.fields[0]))
                tk = tokres.fields[0] if isinstance(tokres, Enum) and tokres.fields else tokres
                tag = tk.tag[len("token-of-"):] if isinstance(tk, T) and tk.tag.startswith("token-of-") else None
                if tag is None:
                    return UNKNOWN
                if tag == "READ-ERROR":
                    return some(err(RE))
                s_ = forms.setdefault(tag, T(tag))
                return some(ok(s_))
            if c in (ITP + "eval_root_ast", ITP + "eval_ast", ITP + "eval_ast_error_no_location", ITP + "eval_expression_or_definition"):
                st = next((x for x in a[1:2] if isinstance(absint.deref(x), T)), None)
                st = absint.deref(st) if st is not None else None
                if st is not None and st.tag in dict(script):
                    ev.append(("eval", st.tag))
                    if "import_end" in fields and a and isinstance(absint.deref(a[0]), list) and len(absint.deref(a[0])) == len(fields):
                        flags_seen.append(absint.deref(absint.deref(a[0])[fields.index("import_end")]))
                    return dict(script)[st.tag]
                return UNKNOWN
            if end in ("clone",) and a and isinstance(a[0], T):
                return a[0]
            return NOT
        selfv = [UNKNOWN for _ in fields]
        SENV, ENV = T("syntax-environment-of-the-interpreter"), T("environment-of-the-interpreter")
        if "syntax_env" in fields:
            selfv[fields.index("syntax_env")] = SENV
        if "env" in fields:
            selfv[fields.index("env")] = ENV
        if "import_end" in fields:
            selfv[fields.index("import_end")] = True       # (an earlier submission has evaluated an expression: the import part is over)
        mc = Machine(fb, intercept=icpt, max_visits=8, budget=600)
        try:
            res = mc.run(f, [selfv, T("char-stream")])
        except (absint.Stuck, absint.Loop) as e:
            rows.append((name, {"stuck": str(e), "events": list(ev)}))
            continue
        after = {n_: absint.deref(selfv[fields.index(n_)]) for n_ in ("syntax_env", "env") if n_ in fields}
        kept = {n_: (True if v_ is w_ else (None if v_ is UNKNOWN else False)) for n_, v_, w_ in
                ((n_, after.get(n_), SENV if n_ == "syntax_env" else ENV) for n_ in after)}
        if "import_end" in fields:
            fl = absint.deref(selfv[fields.index("import_end")])
            kept["import_end"] = True if fl is True else (False if fl is False else None)
            if flags_seen and not all(x is True for x in flags_seen if isinstance(x, bool)):
                kept["import_end"] = False              # (re-opened while the forms of the submission were evaluated)
        rows.append((name, {"result": res, "events": ev, "V1": V1, "V2": V2, "RE": RE, "EE": EE, "LE": LE, "state_kept": kept}))
    return f, rows


def _has(v, x, d=8):
    if v is x:
        return True
    if d <= 0:
        return False
    if isinstance(v, Enum):
        return any(_has(y, x, d - 1) for y in v.fields)
    if isinstance(v, (list, tuple)):
        return any(_has(y, x, d - 1) for y in v)
    if isinstance(v, machine.Text):
        return any(_has(y.value, x, d - 1) for y in v.parts if not isinstance(y, str))      # the rendering of x (its message) is x
    if isinstance(v, machine.Hole):
        return _has(v.value, x, d - 1)
    return False


def rule_eval_flow(ctx, rules):
    """rules: dict with keys last-value, stop-at-first, incremental -> rule ids (None to skip that aspect)"""
    fb = ctx.fb()
    from .ctx import where_of
    f, rows = eval_flow_table(fb)
    decided = 0
    for name, d in rows:
        key = "eval/%s" % name
        if "stuck" in d:
            for r in {v for v in rules.values() if v}:
                ctx.undecided(r, key, "cannot follow Interpreter::eval (%s)" % d["stuck"], where_of(f))
            continue
        decided += 1
        res, ev = d["result"], d["events"]
        okres = isinstance(res, Enum) and getattr(res, "name", None) == "Ok"
        errres = isinstance(res, Enum) and getattr(res, "name", None) == "Err"
        all_evs = [(k, v) for k, v in ev]
        evs = [(k, v) for k, v in ev if k != "lex"]
        checks = []
        if name == "two-values":
            checks.append(("last-value", okres and _has(res, d["V2"]) and not _has(res, d["V1"]),
                           "a submission of two expressions yields %r, expected the value of the second" % (res,)))
            checks.append(("incremental", [e for e in evs if e[0] == "eval" or e[1] < 2] == [("read", 0), ("eval", "S1"), ("read", 1), ("eval", "S2")],
                           "two forms are processed as %s, expected read, evaluate, read, evaluate: each form is evaluated before the next is read" % evs))
        elif name == "value-then-definition":
            checks.append(("last-value", okres and not _has(res, d["V1"]) and bool(machine_none_in(res)),
                           "a submission whose last form is a definition yields %r, expected no value (the value of an earlier expression must "
                           "not be shown)" % (res,)))
        elif name == "form-then-read-error":
            checks.append(("stop-at-first", errres and _has(res, d["RE"]) and ("eval", "S3") not in evs,
                           "a read error after a good form yields %r with the events %s, expected that error and nothing evaluated after it" % (res, evs)))
            checks.append(("incremental", ("eval", "S1") in evs and evs.index(("eval", "S1")) < (evs.index(("read", 1)) if ("read", 1) in evs else 99),
                           "the form before a read error is %s; expected it to be evaluated before the reader is asked for the next form (its effects "
                           "and output belong to the session / program)" % ("evaluated only after the failing read" if ("eval", "S1") in evs else "never evaluated")))
        elif name == "form-then-lexical-error":
            checks.append(("stop-at-first", errres and _has(res, d["LE"]) and ("eval", "S3") not in evs,
                           "a lexical error after a good form yields %r with the events %s, expected that error and nothing evaluated after it" % (res, evs)))
            checks.append(("incremental", ("eval", "S1") in all_evs and ("lex", 1) in all_evs and all_evs.index(("eval", "S1")) < all_evs.index(("lex", 1)),
                           "the form before a lexical error is %s; expected it to be evaluated before the text after it is even tokenized (its effects "
                           "and output belong to the session / program)" % ("evaluated only after the failing token was read" if ("eval", "S1") in all_evs else "never evaluated")))
        elif name == "evaluation-error-then-form":
            checks.append(("stop-at-first", errres and _has(res, d["EE"]) and ("eval", "S2") not in evs,
                           "after a failing form eval yields %r with the events %s, expected the error and no later form evaluated" % (res, evs)))
        else:
            checks.append(("last-value", okres and bool(machine_none_in(res)), "an empty submission yields %r, expected no value" % (res,)))
        # whatever the submission does, the interpreter keeps its environment and its syntax environment (the macros defined so far)
        for fld, kept in sorted((d.get("state_kept") or {}).items()):
            if kept is None:
                continue
            checks.append(("state-kept", kept, "after a submission (%s) that %s the interpreter's `%s` is no longer the one it had: %s made "
                           "before are lost for the rest of the session" % (name, "fails" if errres else "succeeds", fld,
                                                                            "the macro definitions" if fld == "syntax_env" else "the definitions"))
                          if fld != "import_end" else
                          ("state-kept", kept, "a submission (%s) re-opens the import part of the session: after an earlier submission evaluated an "
                           "expression or definition, (import ...) is rejected when it follows on the same line and accepted when it is "
                           "entered as a submission of its own — the transcript depends on how the forms are split" % name))
        for aspect, good, msg in checks:
            r = rules.get(aspect)
            if not r:
                continue
            k2 = key if aspect != "state-kept" else key + "/state"
            ctx.inst(r, k2, {"ok": bool(good)})
            ctx.oblige(bool(good))
            if not good:
                ctx.report(r, k2, msg, where_of(f))
    return decided


def machine_none_in(res):
    """Ok(None)"""
    return isinstance(res, Enum) and res.fields and isinstance(res.fields[0], Enum) and machine.is_opt(res.fields[0]) and res.fields[0].variant == 0


# ------------------------------------------------------------------------------------------------ Interpreter::eval_file


def eval_file_table(fb):
    """eval_file(path): the program directory is recorded before evaluation, the text evaluated is what file_char_stream yields for
    that path, an unreadable file is an error and nothing is evaluated, the result is eval's"""
    ITP = "interpreter::interpreter::Interpreter::"
    f = fb.find(ITP + "eval_file")
    fields = [x["name"] for x in fb.adt("interpreter::interpreter::Interpreter")["variants"][0]["fields"]]
    rows = []
    for scenario in ("ok", "open-fails", "evaluation-fails"):
        PATH, DIR, STREAM, IOERR, E, V = T("path"), T("directory-of-path"), T("chars-of-file"), T("io-error"), T("evaluation-error"), T("value")
        selfv = [UNKNOWN for _ in fields]
        pd = fields.index("program_directory") if "program_directory" in fields else None
        if pd is not None:
            selfv[pd] = none()
        ev = []

        def icpt(mc, c, a, tt, g, scenario=scenario, ev=ev, selfv=selfv):
            end = c.rsplit("::", 1)[-1]
            a0 = absint.deref(a[0]) if a else None
            if c.endswith("io::file_char_stream"):
                ev.append(("open", a0 is PATH))
                return err(IOERR) if scenario == "open-fails" else ok(STREAM)
            if c == ITP + "eval":
                cur = absint.deref(selfv[pd]) if pd is not None else None
                ev.append(("eval", absint.deref(a[1]) is STREAM if len(a) > 1 else None, cur))
                return err(E) if scenario == "evaluation-fails" else ok(some(V))
            if ("path::Path" in c or "PathBuf" in c) and a0 is PATH:
                if end == "parent":
                    return some(DIR)
                if end in ("as_path", "as_ref", "deref", "borrow", "to_path_buf", "to_owned", "clone", "into", "from", "new"):
                    return PATH
            if a0 is DIR and end in ("to_owned", "to_path_buf", "clone", "into", "from", "as_ref", "deref", "borrow"):
                return DIR
            if end in ("into", "from", "deref", "as_ref", "borrow", "as_path", "to_path_buf", "to_owned", "clone") and a0 is PATH:
                return PATH
            return NOT
        mc = Machine(fb, intercept=icpt, max_visits=6, budget=400)
        try:
            res = mc.run(f, [selfv, PATH])
        except (absint.Stuck, absint.Loop) as e:
            rows.append((scenario, {"stuck": str(e)}))
            continue
        rows.append((scenario, {"result": res, "events": ev, "DIR": DIR, "IOERR": IOERR, "E": E, "V": V}))
    return f, rows


def rule_eval_file(ctx, rule):
    fb = ctx.fb()
    from .ctx import where_of
    f, rows = eval_file_table(fb)
    decided = 0
    for scenario, d in rows:
        key = "eval_file/%s" % scenario
        if "stuck" in d:
            ctx.undecided(rule, key, "cannot follow Interpreter::eval_file (%s)" % d["stuck"], where_of(f))
            continue
        decided += 1
        res, ev = d["result"], d["events"]
        opens = [e for e in ev if e[0] == "open"]
        evals = [e for e in ev if e[0] == "eval"]
        name = getattr(res, "name", None) if isinstance(res, Enum) else None

        def has_dir(x):
            return _has(x, d["DIR"])
        if scenario == "open-fails":
            good = name == "Err" and _has(res, d["IOERR"]) and not evals and len(opens) == 1 and opens[0][1]
            msg = "when the file cannot be read eval_file yields %r after %s; expected the read error (a diagnostic and a non-zero status), " \
                  "nothing evaluated" % (res, ev)
        else:
            ok_eval = len(evals) == 1 and evals[0][1] is True and has_dir(evals[0][2]) and len(opens) == 1 and opens[0][1]
            if scenario == "ok":
                good = ok_eval and name == "Ok" and _has(res, d["V"])
            else:
                good = ok_eval and name == "Err" and _has(res, d["E"])
            msg = "eval_file (%s) yields %r after %s; expected: the program's directory recorded, then exactly one evaluation of the text " \
                  "file_char_stream gives for the path, whose result is the result" % (scenario, res, [(e[0],) + tuple(e[1:2]) for e in ev])
        ctx.inst(rule, key, {"ok": bool(good)})
        ctx.oblige(bool(good))
        if not good:
            ctx.report(rule, key, msg, where_of(f))
    return decided
