"""C06: classification of single tokens.  An independent statement of R7RS 7.1.1 for the supported token classes (decimal radix,
no prefixes): which texts are identifiers (ordinary and peculiar), integers, ratios, decimals; compared with what the lexer's MIR
yields for `text + delimiter` (lexrun.py).  The sample is generated from the productions, so every production of
<peculiar identifier> and <decimal 10> is covered with every kind of <subsequent>."""
import re
from fractions import Fraction

LETTER = "abcxyzABZ"
SPECIAL_INITIAL = "!$%&*/:<=>?^_~"
DIGIT = "0123456789"


def initial(c):
    return c.isalpha() or c in SPECIAL_INITIAL


def subsequent(c):
    return initial(c) or c in DIGIT or c in "+-.@"


def sign_subsequent(c):
    return initial(c) or c in "+-@"


def dot_subsequent(c):
    return sign_subsequent(c) or c == "."


NUM = re.compile(r"^[+-]?(\d+/\d+|(\d+\.\d*|\.\d+|\d+)(e[+-]?\d+)?)$")


def classify(t):
    """('Integer', n) | ('Rational', (n, d)) | ('Real', float) | ('Identifier', t) | None (not a token of the supported grammar)"""
    if NUM.match(t):
        if "/" in t:
            n, d = t.split("/")
            if int(d) == 0:
                return None
            return ("Rational", (int(n), int(d)))
        if "." in t or "e" in t:
            return ("Real", float(t))
        return ("Integer", int(t))
    if not t:
        return None
    c = t[0]
    if initial(c):
        return ("Identifier", t) if all(subsequent(x) for x in t[1:]) else None
    if c in "+-":
        if len(t) == 1:
            return ("Identifier", t)
        if t[1] == ".":
            ok = len(t) >= 3 and dot_subsequent(t[2]) and all(subsequent(x) for x in t[3:])
            return ("Identifier", t) if ok else None
        ok = sign_subsequent(t[1]) and all(subsequent(x) for x in t[2:])
        return ("Identifier", t) if ok else None
    if c == ".":
        ok = len(t) >= 2 and dot_subsequent(t[1]) and all(subsequent(x) for x in t[2:])
        return ("Identifier", t) if ok else None
    return None


def unsupported(t):
    """R7RS forms the pinned lexer does not support (it reports a syntax error): `.5`, `+.a`"""
    return bool(re.match(r"^\.\d", t) or re.match(r"^[+-]\.[^0-9]", t))


def samples(thorough=False):
    subs = ["", "1", "a", ".", "+", "@", "a1", "-1", "!"] if thorough else ["", "1", "a.", "+9"]
    out = ["+", "-", "...", "->", "a", "a1", "x-1", "a->b1", "!x", "<=?", "list->vector", "a.b", "a+", "a@1"]
    for s in "+-":
        for ss in "a+-@!":
            for sub in subs:
                out.append(s + ss + sub)
        for ds in "a+-@.":
            for sub in subs:
                out.append(s + "." + ds + sub)
    for ds in "a+-@.":
        for sub in subs:
            out.append("." + ds + sub)
    out += ["0", "7", "42", "+5", "-5", "007", "1/2", "-32/3", "+1/3", "10/4", "1.5", "-1.5", "+.5", ".5", "-.25", "1.", "1e3", "1e-3", "1.5e2", "-2.5e+1",
            "+.5e1", "12e0",
            # the ends of the exact integer range (fixed-width representation): every in-range literal is read, with either sign
            "2147483647", "+2147483647", "-2147483647", "-2147483648", "-0", "+0", "000", "-2147483648/3", "2147483647/2", "1/4294967295",
            "-1/2147483648",
            # a denominator is read as a number, not as text: leading zeros do not make it zero
            "1/02", "3/010", "-7/05", "1/0", "5/00", "-3/000"]
    seen, uniq = set(), []
    for t in out:
        if t not in seen:
            seen.add(t)
            uniq.append(t)
    return uniq


def rule(ctx, rule_id):
    from . import lexrun
    from .ctx import where_of
    fb = ctx.fb()
    nx = fb.find("<parser::lexer::Lexer as std::iter::Iterator>::next")
    bad = {}
    n = und = rejected = 0
    for t in samples(ctx.tier == "thorough"):
        want = classify(t)
        if want is None:
            continue
        toks = lexrun.lex(fb, t + " ")
        if toks and toks[-1][0] in ("stuck", "panic"):
            und += 1
            continue
        n += 1
        got = [(k, p) for k, p, *_ in toks]
        if unsupported(t) and got and got[0][0] == "error":
            rejected += 1
            continue                     # outside the lexer's supported grammar: rejected with a syntax error, never misread
        ok = len(got) == 1 and got[0][0] == want[0]
        if ok:
            if want[0] == "Real":
                try:
                    ok = float(got[0][1]) == want[1]
                except Exception:
                    ok = False
            elif want[0] == "Rational":
                g = got[0][1]
                ok = isinstance(g, (tuple, list)) and len(g) == 2 and g[1] != 0 and Fraction(g[0], g[1]) == Fraction(*want[1])
            else:
                ok = got[0][1] == want[1]
        if not ok:
            cls = "%s/%s" % (want[0], "peculiar" if want[0] == "Identifier" and t[0] in "+-." else ("leading-dot" if t.lstrip("+-").startswith(".") else "ordinary"))
            bad.setdefault(cls, []).append((t, got))
    # |quoted| identifiers: whatever stands between the bars is the name of a symbol — also when it is spelled like a token of another
    # class (the dot of a dotted pair, a number, a boolean, a parenthesis, a quote, a comment starter) or is empty
    nq = 0
    for content in (".", "...", "..", "1", "-5", "1/2", "1.5", "1e3", "#t", "#f", "#\\a", "(", ")", "'", ";", "a b", "", "\"", "a;b", " ", "#(", "+", "-",
                    "quote", "a\tb", "a(b", ". ", " ."):
        toks = lexrun.lex(fb, "|" + content + "| ")
        if toks and toks[-1][0] in ("stuck", "panic"):
            und += 1
            continue
        nq += 1
        got = [(k, p) for k, p, *_ in toks]
        if not (len(got) == 1 and got[0] == ("Identifier", content)):
            bad.setdefault("Identifier/bar-quoted", []).append(("|" + content + "|", got))
    n += nq
    ctx.inst(rule_id, "token-classes/bar-quoted", {"tokens": nq})
    ctx.inst(rule_id, "token-classes", {"tokens": n, "undecided": und, "disagreements": sum(len(v) for v in bad.values()),
                                        "rejected_outside_supported_grammar": rejected})
    ctx.assume("the lexer's supported grammar excludes two R7RS token forms, which it rejects with a syntax error: decimals without an "
               "integer part and without a sign (`.5`) and peculiar identifiers of the form sign-dot-... (`+.a`, `-..`); for these the rule only "
               "demands that they are rejected or read correctly, never read as something else")
    if und:
        ctx.undecided(rule_id, "token-classes", "%d sample token(s) could not be followed through the lexer" % und, where_of(nx))
    ctx.oblige(not bad)
    for cls, items in sorted(bad.items()):
        t, got = items[0]
        ctx.report(rule_id, cls, "%d token(s) of the class %s are not read as R7RS 7.1.1 assigns, e.g. `%s` is %s but is read as %s (all: %s)" % (
            len(items), cls, t, classify(t) if not t.startswith("|") else ("Identifier", t[1:-1]), got, " ".join(x for x, _ in items[:12])), where_of(nx))
    return n
