"""Decision tables of the REPL (machine.py): the completeness test on sample submissions, compared with what the reader's lexer
(lexrun.py) makes of the same text."""
from . import absint, machine, mir, lexrun
from .absint import Enum, UNKNOWN
from .machine import NOT, Machine, Iter

TEXTS = ["", "a", "(", "()", "(a", "(a)", ")", "(()", "(()))", "(\"(\"", "(\")\")", "\"abc", "(\"abc\")", "(;)\n", "(;)\n)", "; (\n", "#\\(", "(#\\))", "(#\\()",
         "'(", "'()", "#(", "#(1)", "#u8(", "#u8(1)", "(|)|", "(|)|)", "|ab", "(a\n b)", "(a\n", "(1/", "(1x)", "(#t (", "`(,@(", "((a) (b", "((a) (b))"]


def complete(fb, text):
    f = fb.find("repl::check_bracket_closed")
    mc = Machine(fb, max_visits=max(10, len(text) + 6), budget=1500)
    try:
        r = mc.run(f, [Iter([ord(c) for c in text])])
    except (absint.Stuck, absint.Loop) as e:
        return ("stuck", str(e))
    if any(e[0] == "panic" for e in mc.events):
        return ("panic", [e[1] for e in mc.events if e[0] == "panic"][0])
    return r if isinstance(r, bool) else ("stuck", "result %r" % (r,))


def reference(fb, text):
    """what the reader would do with the text: the nesting depth of its tokens, or how lexing fails"""
    toks = lexrun.lex(fb, text, max_tokens=40)
    depth = 0
    for t in toks:
        if t[0] in ("LeftParen", "VecConsIntro", "ByteVecConsIntro"):
            depth += 1
        elif t[0] == "RightParen":
            depth -= 1
        elif t[0] == "error":
            return ("error", t[1])
        elif t[0] in ("stuck", "panic"):
            return (t[0], t[1])
    return ("depth", depth)


def rule_agreement(ctx, rule):
    fb = ctx.fb()
    from .ctx import where_of
    f = fb.find("repl::check_bracket_closed")
    decided = 0
    for text in TEXTS:
        got = complete(fb, text)
        ref = reference(fb, text)
        key = "complete?/%r" % text
        if isinstance(got, tuple) and got[0] == "stuck" or ref[0] == "stuck":
            ctx.undecided(rule, key, "cannot follow %s on %r (%s)" % ("the completeness test" if isinstance(got, tuple) else "the lexer", text,
                                                                       got[1] if isinstance(got, tuple) else ref[1]), where_of(f))
            continue
        decided += 1
        if isinstance(got, tuple):
            ctx.inst(rule, key, {"completeness_test": got[0]})
            ctx.oblige(False)
            ctx.report(rule, key, "the completeness test panics on %r (%s)" % (text, got[1]), where_of(f))
            continue
        if ref[0] == "depth":
            want = ref[1] <= 0
            why = "its tokens leave %d list(s) open" % ref[1] if ref[1] > 0 else "every list its tokens open is closed"
        elif ref[0] == "error":
            needs_more = any(k in ("UnexpectedEnd", "ImcompleteQuotedIdent") for k in ref[1])
            want = not needs_more
            why = ("the reader stops inside an unterminated token (%s)" % ref[1]) if needs_more else ("the reader reports a lexical error (%s) that more input cannot repair" % ref[1])
        else:
            continue
        ctx.inst(rule, key, {"complete": got, "reader": list(ref)})
        ctx.oblige(got is want)
        if got is not want:
            ctx.report(rule, key, "the submission %r is judged %s, but %s: it should be %s" % (
                text, "complete" if got else "incomplete", why, "complete" if want else "incomplete"), where_of(f))
    return decided


class V:
    def __init__(self, tag):
        self.tag = tag

    def __repr__(self):
        return "<%s>" % self.tag


def session_table(fb):
    """run_with_interpreter on a scripted line editor: which texts are submitted to the interpreter, and what is printed where"""
    f = fb.find("repl::run_with_interpreter")
    vi = dict((n, i) for i, n in fb.variants("values::Value"))
    rle = None
    # (the last form has a line that ends in a blank which is part of a token: the character literal `#\ `)
    # (... then forms whose last line holds no closing parenthesis: a string and a |symbol| that span lines, a list whose closing
    # parenthesis is preceded by lines without one)
    lines = ["(define x", " 1)", "x", "", "(car", "5)", "y", "(display 1)", "(list #\\ ", "  #\\a)", '"abc', 'def"', "|p", "q|", "'(a", "b", "c", ")",
             # an empty line typed while a form is open is not the end of the form
             "(list 1", "", " 2)",
             # a CLOSED form the evaluator rejects with the error the reader also uses for "ran out of text" ((if) has no operands):
             # it is an error of the submission — printed, buffer cleared — not a request for more lines
             "(if)", "z"]
    PAY, ERR = V("value-of-x"), V("error")
    VAL = Enum(vi["Symbol"], [PAY])
    VAL.name, VAL.adt = "Symbol", "values::Value"
    void = Enum(vi["Void"], [])
    void.name, void.adt = "Void", "values::Value"
    ed = dict((n, i) for i, n in fb.variants("error::ErrorData"))
    se = dict((n, i) for i, n in fb.variants("parser::error::SyntaxError"))

    def located(data):
        e = Enum(0, [data, machine.none()])
        e.name, e.adt = "Located", "error::Located"
        return e
    logic = Enum(ed["Logic"], [ERR])
    logic.name, logic.adt = "Logic", "error::ErrorData"
    unexpected_end = Enum(se["UnexpectedEnd"], [])
    unexpected_end.name, unexpected_end.adt = "UnexpectedEnd", "parser::error::SyntaxError"
    syn = Enum(ed["Syntax"], [unexpected_end])
    syn.name, syn.adt = "Syntax", "error::ErrorData"
    answers = [machine.ok(machine.none()), machine.ok(machine.some(VAL)), machine.err(located(logic)), machine.ok(machine.some(VAL)),
               machine.ok(machine.some(void)), machine.ok(machine.none()), machine.ok(machine.none()), machine.ok(machine.none()), machine.ok(machine.none()), machine.ok(machine.none()),
               machine.err(located(syn)), machine.ok(machine.some(VAL))]
    k, n_eval = [0], [0]
    ev = []
    INTERP = V("interpreter")

    def text_of(x):
        if isinstance(x, Iter):
            return "".join(chr(c) for c in x.items[x.pos:])
        return x if isinstance(x, str) else None

    def icpt(mc, c, a, tt, g):
        end = c.rsplit("::", 1)[-1]
        if c.endswith("Editor::new") or "rustyline::Editor" in c and end == "new":
            return V("editor")
        if c.endswith("Editor::readline"):
            i = k[0]
            k[0] += 1
            ev.append(("prompt", a[1] if len(a) > 1 else None))
            if i < len(lines):
                return machine.ok(lines[i])
            e = Enum(1, [])
            e.name, e.adt = "Eof", "rustyline::error::ReadlineError"
            return machine.err(e)
        if c.endswith("Editor::add_history_entry"):
            return True
        if c.endswith("Interpreter::eval"):
            i = n_eval[0]
            n_eval[0] += 1
            ev.append(("eval", text_of(a[1]) if len(a) > 1 else None, a[0] is INTERP))
            return answers[i] if i < len(answers) else machine.ok(machine.none())
        if c.endswith("io::_print") or c.endswith("io::_eprint"):
            txt = mc.render(a[0]) if a and isinstance(a[0], machine.FmtArguments) else None
            ev.append(("stdout" if c.endswith("_print") else "stderr", txt))
            return []
        if c.endswith("io::stdout") or c.endswith("io::stderr"):
            return V("stream")
        if end == "flush" and "io::Write" in c:
            return machine.ok([])
        if c.endswith("String::clear"):
            return NOT
        return NOT
    mc = Machine(fb, intercept=icpt, max_visits=len(lines) + 6, budget=6000)
    try:
        mc.run(f, [INTERP])
    except (absint.Stuck, absint.Loop) as e:
        return f, {"stuck": str(e), "events": ev}
    return f, {"events": ev, "VAL": PAY, "ERR": ERR}


def _show(t, d):
    if t is None or isinstance(t, str):
        return t
    parts = []
    for p in t.parts:
        if isinstance(p, str):
            parts.append(p)
        else:
            v = p.value
            parts.append("{value}" if _in(v, d.get("VAL")) else ("{error}" if _in(v, d.get("ERR")) else "{?}"))
    return "".join(parts)


def _in(v, x, depth=6):
    if v is x:
        return True
    if isinstance(v, Enum):
        return depth > 0 and any(_in(y, x, depth - 1) for y in v.fields)
    return isinstance(v, list) and depth > 0 and any(_in(y, x, depth - 1) for y in v)


def rule_session(ctx, rule_buffer, rule_print, rule_one=None):
    fb = ctx.fb()
    from .ctx import where_of
    f, d = session_table(fb)
    if "stuck" in d:
        ctx.undecided(rule_buffer, "session", "cannot follow run_with_interpreter on the scripted session (%s)" % d["stuck"], where_of(f))
        return 0
    evals = [e[1] for e in d["events"] if e[0] == "eval"]
    want = ["(define x\n 1)", "x", "(car\n5)", "y", "(display 1)", "(list #\\ \n  #\\a)", '"abc\ndef"', "|p\nq|", "'(a\nb\nc\n)", "(list 1\n 2)", "(if)", "z"]
    # (an empty line inside an open form may or may not leave a newline in the text: the same tokens either way)
    evals = ["(list 1\n 2)" if e == "(list 1\n\n 2)" else e for e in evals]
    ctx.inst(rule_buffer, "session/submissions", {"submitted": evals})
    ctx.oblige(evals == want)
    if evals != want:
        ctx.report(rule_buffer, "session/submissions", "the lines `(define x`, ` 1)`, `x`, ``, `(car`, `5)` (an error), `y`, `(display 1)`, `(list #\\ ` "
                   "(ending in a blank), `  #\\a)`, then a string, a |symbol| and a list spread over lines whose last line has no parenthesis, a list with an empty line inside it, are submitted as %s; expected %s (the lines exactly as typed, joined by a newline until "
                   "complete; the buffer cleared after every submission, failed or not)" % (
                       evals, want), where_of(f))
    if rule_one:
        same = all(e[2] for e in d["events"] if e[0] == "eval")
        ctx.inst(rule_one, "session/interpreter", {"every_submission_uses_the_session_interpreter": same})
        ctx.oblige(same)
        if not same:
            ctx.report(rule_one, "receiver", "a submission is evaluated by an interpreter other than the one the session was started with "
                       "(definitions would not survive)", where_of(f))
    # what is printed after each submission
    out = []
    cur = None
    for e in d["events"]:
        if e[0] == "eval":
            cur = []
            out.append((e[1], cur))
        elif e[0] == "prompt":
            cur = None              # what is printed after the next prompt does not belong to the submission
        elif e[0] in ("stdout", "stderr") and cur is not None:
            cur.append((e[0], _show(e[1], d)))
    printed = {t: p for t, p in out}
    expect = {"(define x\n 1)": [], "x": [("stdout", "{value}\n")], "(car\n5)": [("stderr", "{error}\n")], "y": [("stdout", "{value}\n")], "(display 1)": [],
              "(if)": "one-stderr", "z": [("stdout", "{value}\n")]}
    ctx.inst(rule_print, "session/output", {k: v for k, v in printed.items()})
    def matches(got, p):
        if p == "one-stderr":
            return isinstance(got, list) and len(got) == 1 and got[0][0] == "stderr" and bool(got[0][1])
        return got == p
    good = all(matches(printed.get(t), p) for t, p in expect.items())
    ctx.oblige(good)
    if not good and evals == want:
        bad = [(t, printed.get(t), p) for t, p in expect.items() if not matches(printed.get(t), p)]
        t, got, p = bad[0]
        ctx.report(rule_print, "session/output", "after submitting %r (%s) the REPL prints %s, expected %s" % (
            t, {"(define x\n 1)": "a definition", "x": "a value", "(car\n5)": "an error", "y": "a value after an error", "(display 1)": "an unspecified value",
                "(if)": "a closed form rejected with `unexpected end`", "z": "a value after that"}[t],
            got, p), where_of(f))
    return 1
