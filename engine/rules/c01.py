"""C01 — Core evaluation yields the value Scheme semantics assigns (structural part)."""
from . import mir, absint
from .mir import callee, callee_matches, Prov
from .ctx import where_of

EXPLANATION = (
    "Decision tables extracted by abstract interpretation of the evaluator's MIR over opaque sub-forms and values "
    '(no execution; engine/rules/machine.py): (scope-capture) a lambda evaluates to a closure holding the '
    'environment it was evaluated in, shared, not copied; (once) for (OP A1 A2 A3) each sub-form is evaluated '
    "exactly once in the caller's environment and OP's value is applied once to the operand values in order; "
    '(scope-extend, defs-first) for fixed / rest / empty parameter lists and 0-3 arguments an application creates '
    "exactly one frame whose parent is the closure's captured environment, binds parameters and the rest list "
    'there, establishes internal definitions before the body and evaluates the last body form in tail position; '
    '(truthiness) as_boolean is false exactly on Boolean(false) and both evaluators run the test once and then '
    'exactly the selected arm in the same environment; (innermost) on a three-frame chain with every subset of '
    'frames binding the name, get / get_mut find the innermost binding and define writes only the own frame; '
    '(dispatch) every ExpressionBody / DatumBody variant has a handler and the tail evaluator agrees with '
    'eval_expression on non-tail forms; (apply-spread) the apply builtin passes leading arguments plus the '
    'elements of its last argument through apply_procedure.  Shape-bound formulations of the same rules are kept '
    'only as fallbacks that can yield UNDECIDED, never a violation. (once, tail) for a call in tail position the '
    'tail evaluator and the trampoline are followed together: operator and operand are evaluated exactly once, in '
    'the frame of the running procedure, and the callee then runs as an ordinary application.')
NOT_DECIDED = "the value of arbitrary programs (semantics of a Turing-complete evaluator); order of operand evaluation."

INTERP = "interpreter::interpreter::Interpreter::"


def arm(f, adt, variant_idx):
    sw = next(iter(mir.discriminant_switches(f, adt)), None)
    if not sw:
        raise mir.AnchorMissing("%s does not dispatch on %s" % (f.name, adt))
    sb, place, a, targets, other = sw
    t = targets.get(variant_idx)
    return (mir.dominated_region(f, t) if t is not None and t != other else None), sw


def field_path(f, o):
    root, path = mir.trace_access(f, o)
    return root, [x for x in path if not isinstance(x, tuple)]


def run(ctx):
    fb = ctx.fb()
    ctx.trust("rustc nightly MIR; provenance flow-insensitive, used for 'derives only from' / 'never from'")
    ee = fb.find(INTERP + "eval_expression")
    ete = fb.find(INTERP + "eval_tail_expression")
    asp = fb.find(INTERP + "apply_scheme_procedure")
    ap = fb.find(INTERP + "apply_procedure")
    epc = fb.find(INTERP + "eval_procedure_call")
    vidx = dict((n, i) for i, n in fb.variants("parser::parser::ExpressionBody"))

    # ------------------------------------------------------------------ C01-scope-capture
    ctx.rule("C01-scope-capture", "a closure captures the environment it is created in, by reference (Rc::clone)")
    from . import evaltables
    d_lambda = evaltables.rule_lambda(ctx, "C01-scope-capture")
    def _old_capture():
        reg, _ = arm(ee, "ExpressionBody", vidx["Procedure"])
        p = Prov(ee)
        users = [(b, s) for b, i, s, a, v in mir.aggregates(ee, reg, "values::Procedure") if v == "User"]
        if len(users) != 1:
            ctx.report("C01-scope-capture", "shape", "expected one Procedure::User construction in the lambda arm, found %d" % len(users), where_of(ee))
        else:
            b, s = users[0]
            envop = s["rv"]["ops"][1]
            ar = p.arg_roots(envop)
            cr = {c for _, c in p.call_roots(envop)}
            clones = [callee(t) for _, t in ee.calls(reg) if (callee(t) or "").endswith("::clone")]
            ctx.inst("C01-scope-capture", "eval_expression/lambda", {"env_arg_roots": sorted(ar), "env_call_roots": sorted(cr), "clones": clones})
            if ar != {2} or cr:
                ctx.report("C01-scope-capture", "env", "the captured environment derives from parameters %s / calls %s, expected "
                           "only the `env` parameter" % (sorted(ar), sorted(cr)), where_of(ee, span=s["span"]))
            bad = [c for c in clones if "LexicalScope" in c]
            fresh = [callee(t) for _, t in ee.calls(reg) if callee_matches(t, "std::rc::Rc::new", "LexicalScope::new", "LexicalScope::new_child")]
            if bad or fresh or "<std::rc::Rc as std::clone::Clone>::clone" not in clones:
                ctx.report("C01-scope-capture", "copy", "the environment is copied (%s) instead of shared by Rc::clone" % (bad + fresh), where_of(ee))
    ctx.guarded('C01-scope-capture', d_lambda, _old_capture)

    for f in fb.all("lib"):
        if f.derived:
            continue
        for b, t in f.calls():
            if callee(t) == "<environment::LexicalScope as std::clone::Clone>::clone":
                ctx.report("C01-scope-capture", "%s/frame-clone" % f.name, "%s deep-copies a frame" % f.name, where_of(f, t))

    # ------------------------------------------------------------------ C01-scope-extend
    ctx.rule("C01-scope-extend", "the body of a user procedure runs in a child of the closure's frame")
    # decision table of the application (evaltables.py): one fresh frame per application, child of the captured environment;
    # parameters, rest list, internal definitions and body all use it
    d_app = evaltables.rule_application(ctx, "C01-scope-extend", {"frame", "bind"})
    # ... also when the application is the next turn of a self tail call: a closure made in the finished turn keeps its own bindings
    evaltables.rule_trampoline(ctx, "C01-scope-extend", {"frame"})
    def _old_extend():
        # where the body frame comes from (position-independent: created in apply_scheme_procedure or handed in by the trampoline)
        from . import frames
        fr = frames.analyse(fb)
        for key, detail in fr.instances:
            ctx.inst("C01-scope-extend", key, detail)
        ctx.inst("C01-scope-extend", "frame-provenance-case", {"case": fr.case, "created_in": sorted(fr.makers)})
        ctx.oblige(not fr.problems)
        for key, msg, where in fr.problems:
            ctx.report("C01-scope-extend", key, msg, where)
        pa = Prov(asp)
        for c in fb.closures_of(asp):
            for b, t in c.calls():
                if callee_matches(t, "LexicalScope::define"):
                    root, path = field_path(c, _through_deref(c, t["args"][0]))
                    # receiver is a capture (parameter 1 = closure env); the capture must be the child frame
                    ctx.inst("C01-scope-extend", "%s/define" % c.name.rsplit("::", 1)[-1], {"receiver_root": root})
                    if root != 1:
                        ctx.report("C01-scope-extend", "closure-define-target", "formals are bound through %s" % root, where_of(c, t))
        # formals / definitions / expressions handed to apply_scheme_procedure come from the procedure being applied
        psw = next(iter(mir.discriminant_switches(ap, "values::Procedure")), None)
        calls = [(b, t) for b, t in ap.calls() if callee(t) == asp.name]
        if not psw or len(calls) != 1:
            ctx.report("C01-scope-extend", "apply_procedure/shape", "shape not recognised", where_of(ap))
        else:
            P = psw[1]["local"]
            b, t = calls[0]
            for k, want in ((0, ["User", 0, 0]), (1, ["User", 0, 1]), (2, ["User", 0, 2])):
                r, pth = field_path(ap, _through_deref(ap, t["args"][k]))
                if r != P or pth[-3:] != want:
                    ctx.report("C01-scope-extend", "apply_procedure/component-%d" % k, "argument %d of apply_scheme_procedure is not "
                               "component %s of the applied procedure" % (k, want), where_of(ap, t))
    ctx.guarded('C01-scope-extend', d_app, _old_extend)

    # ------------------------------------------------------------------ C01-innermost
    ctx.rule("C01-innermost", "lookup finds the innermost binding; define writes only the own frame")
    from . import scopes
    nrows = 0
    for name in ("get", "get_mut", "define"):
        nrows += scopes.table(ctx, fb, "C01-innermost", name)
    # (the same on a chain of four frames, all sixteen subsets: a walk that gives up, or wraps, after a fixed number of steps)
    for name in ("get", "get_mut", "define"):
        scopes.table(ctx, fb, "C01-innermost", name, n=4 if ctx.tier != "thorough" else 5)
    if nrows < 24:
        ctx.undecided("C01-innermost", "floor", "only %d rows of the scope-chain tables were evaluated" % nrows)

    # ------------------------------------------------------------------ C01-truthiness
    ctx.rule("C01-truthiness", "only #f is false: as_boolean table; every conditional branches on as_boolean(test)")
    ab = fb.find("values::Value::as_boolean")
    for i, vn in fb.variants("values::Value"):
        payloads = [False, True] if vn == "Boolean" else [absint.UNKNOWN]
        for pl in payloads:
            try:
                kind, b, env = absint.run_fragment(ab, 0, {1: absint.Enum(i, [pl])}, oracle=lambda *a: None)
                res = env.get(0)
            except (absint.Stuck, absint.Loop):
                res = "stuck"
            want = not (vn == "Boolean" and pl is False)
            ctx.inst("C01-truthiness", "as_boolean/%s%s" % (vn, "" if pl is absint.UNKNOWN else "(%s)" % pl), {"result": res})
            if res is not want:
                ctx.report("C01-truthiness", "as_boolean/%s%s" % (vn, "" if pl is absint.UNKNOWN else "(%s)" % pl),
                           "as_boolean(%s %s) = %s, expected %s" % (vn, pl, res, want), where_of(ab))
    ncond = 0
    live = fb.reachable_from([ap.name, ee.name])
    for f in (ee, ete, fb.find(INTERP + "eval_owned_tail_expression", required=False)):
        if f is None:
            continue
        if f.name not in live:
            ctx.note("%s is not reachable from the evaluator (dead code on this tree): not analysed" % f.name)
            continue
        if f.name in (ee.name, ete.name):
            ncond += 1 if evaltables.rule_conditional(ctx, "C01-truthiness", f) else 0
            evaltables.rule_truthiness(ctx, "C01-truthiness", f)
        else:
            ncond += conditional_rule(ctx, fb, f, vidx, ab.name, ee.name)
    if ncond < 2:
        ctx.undecided("C01-truthiness", "floor", "the conditional tables of the two evaluators were not both decided (%d)" % ncond)
    # other users of truthiness must go through as_boolean too (no ad-hoc tests on Value::Boolean in the evaluator)

    # ------------------------------------------------------------------ C01-once
    ctx.rule("C01-once", "operator and operands are evaluated exactly once, outside loops, before the application")
    d_once = evaltables.rule_once(ctx, "C01-once")
    evaltables.rule_trampoline(ctx, "C01-once", {"once"})      # ... and for a call in tail position (tail evaluator + trampoline together)
    # a call applies the value its operator has when the call is made: the operator of every pending tail call is evaluated, in the
    # environment of the turn that made it (the same name / the same call site on consecutive turns may denote different procedures)
    ctx.rule("C01-scope-chain", "a new frame is a child of exactly the frame it is made under (LexicalScope::new_child on a three-frame chain, "
                                "every subset of the frames binding something): innermost-binding lookup walks the frames the program nested")
    from . import scopes as _sc01
    _sc01.rule_new_child(ctx, fb, "C01-scope-chain")
    ctx.rule("C01-operator-value", "the procedure applied by a tail call is the value of its operator expression at that call (trampoline "
                                   "table: three turns through one operator name / one call site bound to a different procedure each time)")
    evaltables.rule_trampoline(ctx, "C01-operator-value", {"operator"})
    def _old_once():
        reg, _ = arm(ee, "ExpressionBody", vidx["ProcedureCall"])
        once_rule(ctx, fb, ee, reg, ee.name, ap.name, ("ProcedureCall", 0), ("ProcedureCall", 1), "eval_expression")
        once_rule(ctx, fb, epc, set(epc.reachable(0)), ee.name, None, ("arg", 1), ("arg", 2), "eval_procedure_call")
        # apply_procedure is given the evaluated operator and the collected operands
        for b, t in ee.calls(reg):
            if callee(t) == ap.name:
                pr = Prov(ee)
                r0 = {c for _, c in pr.call_roots(t["args"][0])}
                tr = pr.taint_calls(mir.op_local(t["args"][1]))
                ctx.inst("C01-once", "eval_expression/apply-args", {"procedure_from": sorted(r0), "args_collected": "std::iter::Iterator::collect" in tr})
                if r0 != {ee.name} or "std::iter::Iterator::collect" not in tr:
                    ctx.report("C01-once", "eval_expression/apply-args", "apply_procedure is not fed the evaluated operator and the "
                               "collected operands", where_of(ee, t))
    ctx.guarded('C01-once', d_once, _old_once)

    # ------------------------------------------------------------------ C01-defs-first
    ctx.rule("C01-defs-first", "internal definitions are established before any body expression runs")
    d_order = evaltables.rule_application(ctx, "C01-defs-first", {"order"})
    def _old_defs():
        pa = Prov(asp)
        D, E = [], []
        for b, t in asp.calls():
            if callee(t) in (ee.name, ete.name):
                ar = _expr_source_args(asp, pa, t["args"][0])
                if ar == {2}:
                    D.append((b, t))
                elif ar == {3}:
                    E.append((b, t))
                else:
                    ctx.report("C01-defs-first", "source", "a form evaluated by apply_scheme_procedure comes from parameters %s" % sorted(ar), where_of(asp, t))
        ctx.inst("C01-defs-first", "apply_scheme_procedure", {"definition_evals": len(D), "body_evals": len(E)})
        if not D or len(E) < 2:
            ctx.report("C01-defs-first", "shape", "expected definition and body evaluation sites (found %d, %d)" % (len(D), len(E)), where_of(asp))
        for eb, et in E:
            for db, dt in D:
                if db in asp.reachable(eb):
                    ctx.report("C01-defs-first", "order", "a body expression can be evaluated before an internal definition", where_of(asp, et))
        for db, dt in D:
            # value is defined under the definition's name in the same iteration
            defs = [(b, t) for b, t in asp.calls(asp.reachable(db)) if callee_matches(t, "LexicalScope::define")
                    and ("call", db, callee(dt)) in pa.op_roots(t["args"][2])]
            if not defs:
                ctx.report("C01-defs-first", "bind", "the value of an internal definition is not bound", where_of(asp, dt))
        # last expression -> tail evaluator, the others -> eval_expression, all in order (split_last)
        sl = [(b, t) for b, t in asp.calls() if callee_matches(t, "<impl [T]>::split_last")]
        tails = [(b, t) for b, t in E if callee(t) == ete.name]
        if len(sl) != 1 or len(tails) != 1:
            ctx.report("C01-defs-first", "body-shape", "body is not split into leading expressions and a tail expression", where_of(asp))
        else:
            r, pth = field_path(asp, tails[0][1]["args"][0])
            ctx.inst("C01-defs-first", "tail-expression", {"path": pth})
            if pth[-3:] != ["Some", 0, 0]:
                ctx.report("C01-defs-first", "tail-is-last", "the tail evaluator is not given the *last* body expression", where_of(asp, tails[0][1]))
    ctx.guarded('C01-defs-first', d_order, _old_defs)

    # ------------------------------------------------------------------ C01-dispatch
    ctx.rule("C01-dispatch", "every core form has a handler")
    for f, adt, n in ((ee, "ExpressionBody", 9), (fb.find(INTERP + "read_literal"), "DatumBody", 4),
                      (fb.find(INTERP + "eval_primitive"), "Primitive", 6)):
        sw = next(iter(mir.discriminant_switches(f, adt)), None)
        if not sw:
            ctx.report("C01-dispatch", f.name + "/switch", "no dispatch on %s" % adt, where_of(f))
            continue
        variants = fb.variants(adt if "::" in adt else _adt_full(fb, adt))
        sb, place, a, targets, other = sw
        for i, vn in variants:
            tgt = targets.get(i, other)
            k = f.blocks[tgt]["term"]["k"]
            dead = k == "unreachable" and not f.blocks[tgt]["stmts"]
            panics = any(callee_matches(t, "core::panicking::panic", "core::panicking::panic_fmt", "core::panicking::unreachable_display")
                         for _, t in f.calls(_straight(f, tgt)))
            ctx.inst("C01-dispatch", "%s/%s" % (f.name.rsplit("::", 1)[-1], vn), {"target": tgt})
            if dead or panics:
                ctx.report("C01-dispatch", "%s/%s" % (f.name.rsplit("::", 1)[-1], vn), "variant %s has no handler" % vn, where_of(f))
        tg = [targets.get(i, other) for i, _ in variants]
        if len(variants) != n:
            ctx.note("%s now has %d variants (was %d)" % (adt, len(variants), n))
    # tail evaluator, form by form (evaltables.rule_tail_dispatch): a call becomes a pending tail call that carries the same
    # operator, operands and environment; every other form except the conditional (C01-truthiness) is evaluated by
    # eval_expression on the same expression in the same environment and that value returned
    evaltables.rule_tail_dispatch(ctx, "C01-dispatch")

    # ------------------------------------------------------------------ C01-apply-spread
    ctx.rule("C01-apply-spread", "apply spreads only its last argument, through the common application path")
    # decision table (evaltables.rule_apply_native): the native is run on (P a1..ak (l1 l2)), k = 0..3, and the corner cases; the
    # application it makes is the observable
    d_apply = evaltables.rule_apply_native(ctx, "C01-apply-spread")

    def _old_apply_shape():
        na = fb.find("interpreter::library::native::base::apply")
        pn = Prov(na)
        apc = [(b, t) for b, t in na.calls() if callee(t) == ap.name]
        if len(apc) != 1:
            ctx.report("C01-apply-spread", "chokepoint", "apply does not call apply_procedure exactly once", where_of(na))
        else:
            b, t = apc[0]
            r0 = {c for _, c in pn.call_roots(t["args"][0])}
            tc = pn.taint_calls(mir.op_local(t["args"][1]))
            need = {"std::iter::Iterator::collect", "<smallvec::SmallVec as std::iter::Extend>::extend"}
            ctx.inst("C01-apply-spread", "apply/args", {"procedure_from": sorted(r0), "args_built_by": sorted(x for x in tc if x in need or x.endswith("::pop"))})
            if r0 != {"values::Value::expect_procedure"}:
                ctx.report("C01-apply-spread", "procedure", "the applied procedure is not the checked first argument", where_of(na, t))
            if not need <= tc or not any(x.endswith("SmallVec::pop") for x in tc):
                ctx.report("C01-apply-spread", "spread", "the argument vector is not (leading arguments) extended by the elements of "
                           "the popped last argument", where_of(na, t))
            # last argument must be a list: the non-Pair arm is an error
            vsw = [x for x in mir.discriminant_switches(na, "values::Value")]
            pidx = fb.variant_index("values::Value", "Pair")
            if not vsw:
                ctx.report("C01-apply-spread", "last-arg-test", "the last argument is not tested for being a list", where_of(na))
            else:
                sb2, pl2, a2, tg2, ot2 = vsw[0]
                reg2 = mir.dominated_region(na, ot2)
                if not any(v == "TypeMisMatch" for _, _, _, _, v in mir.aggregates(na, reg2)) or tg2.get(pidx) is None:
                    ctx.report("C01-apply-spread", "last-arg-error", "a non-list last argument is not an error", where_of(na))
            pops = [(b2, t2) for b2, t2 in na.calls() if callee_matches(t2, "SmallVec::pop")]
            if len(pops) != 1 or pops[0][0] in na.loop_blocks():
                ctx.report("C01-apply-spread", "only-last", "exactly one argument (the last) must be popped and spread", where_of(na))
    ctx.guarded("C01-apply-spread", d_apply >= 8, _old_apply_shape)
    return EXPLANATION, NOT_DECIDED


# =============================================================================================

def _adt_full(fb, short):
    for n in fb.adts:
        if n.endswith("::" + short):
            return n
    raise mir.AnchorMissing(short)


def _straight(f, b, n=8):
    out = [b]
    for _ in range(n):
        s = f.succs(b)
        if len(s) != 1:
            break
        b = s[0]
        out.append(b)
    return out


def _through_deref(f, o):
    """Skip pass-through calls (Deref::deref, AsRef::as_ref, Rc::clone) when tracing an operand."""
    for _ in range(6):
        l = mir.op_local(o)
        if l is None:
            return o
        # follow unique copies first
        ds = mir.defs_of(f).get(l, [])
        if len(ds) == 1 and ds[0][0] == "call" and callee_matches(
                ds[0][2], "std::ops::Deref>::deref", "std::convert::AsRef>::as_ref", "std::clone::Clone>::clone"):
            o = ds[0][2]["args"][0]
            continue
        if len(ds) == 1 and ds[0][0] == "stmt" and ds[0][3]["rv"]["k"] in ("use", "ref"):
            rv = ds[0][3]["rv"]
            pl = mir.op_place(rv["op"]) if rv["k"] == "use" else rv["place"]
            if pl is not None and all(e["k"] == "deref" for e in pl["proj"]):
                o = {"k": "copy", "place": pl}
                continue
        return o
    return o


def _named_path(f, o):
    """field *names* along the access path of an operand"""
    names = []
    for _ in range(10):
        p = mir.op_place(o)
        if p is None:
            break
        for e in p["proj"]:
            if e["k"] == "field":
                names.append(e.get("name") or e["i"])
        ds = mir.defs_of(f).get(p["local"], [])
        if len(ds) != 1:
            break
        if ds[0][0] == "call":
            if callee_matches(ds[0][2], "std::ops::Deref>::deref", "std::ops::DerefMut>::deref_mut", "AsRef>::as_ref",
                              "cell::RefCell::borrow_mut", "cell::RefCell::borrow"):
                o = ds[0][2]["args"][0]
                continue
            break
        rv = ds[0][3]["rv"]
        if rv["k"] == "use":
            o = rv["op"]
        elif rv["k"] == "ref":
            o = {"k": "copy", "place": rv["place"]}
        else:
            break
    return names


def _borrow_source(f, o):
    return o


def _expr_source_args(f, prov, o):
    """Which parameters an expression operand may come from (through iterators: taint)."""
    l = mir.op_local(o)
    reach = prov.taint_reach(l) if l is not None else set()
    return {a for a in range(1, f.arg_count + 1) if a in reach and a in (1, 2, 3)}


class Tok:
    """opaque abstract value: `the value of evaluating <tag>`"""
    def __init__(self, kind, tag):
        self.kind, self.tag = kind, tag

    def __repr__(self):
        return "%s(%s)" % (self.kind, self.tag)


def _contains(v, pred, depth=8):
    if depth < 0:
        return False
    if pred(v):
        return True
    if isinstance(v, absint.Enum):
        return any(_contains(x, pred, depth - 1) for x in v.fields)
    if isinstance(v, (list, tuple)):
        return any(_contains(x, pred, depth - 1) for x in v)
    return False


def conditional_rule(ctx, fb, f, vidx, as_boolean, eval_expression):
    """Decision table of the conditional, by abstract evaluation of the evaluator on (if T C A) / (if T C):
    T is evaluated exactly once and first, the branch is taken on as_boolean(value of T), exactly the selected arm is
    evaluated and its value is what the evaluator returns; (if #f C) returns the unspecified value.  Independent of how
    the evaluator is written (recursion, a loop over else-if chains, helpers)."""
    if not any(True for x in mir.discriminant_switches(f, "ExpressionBody") if vidx["Conditional"] in x[3]) and \
            not any(callee(t) == as_boolean for _, t in f.calls()):
        return 0
    short = f.name.rsplit("::", 1)[-1]
    evaluators = {eval_expression, f.name, INTERP + "eval_tail_expression", INTERP + "eval_owned_tail_expression"}
    SYM = vidx["Symbol"]

    def marker(tag):
        return [absint.Enum(SYM, [tag]), absint.UNKNOWN]

    def tag_of(x):
        try:
            if isinstance(x, list) and isinstance(x[0], absint.Enum) and x[0].variant == SYM:
                return x[0].fields[0]
        except Exception:
            pass
        return None
    for truth in (True, False):
        for has_alt in (True, False):
            key = "%s/test=%s,%s" % (short, "true" if truth else "false", "alternative" if has_alt else "no-alternative")
            alt = absint.Enum(1, [marker("A")]) if has_alt else absint.Enum(0, [])
            expr = [absint.Enum(vidx["Conditional"], [[marker("T"), marker("C"), alt]]), absint.UNKNOWN]
            events = []

            def oracle(ff, bb, tt, env):
                c = callee(tt) or ""
                a0 = absint.operand(env, tt["args"][0]) if tt["args"] else None
                if c in evaluators:
                    tg = tag_of(a0)
                    events.append(("tail" if c != eval_expression else "eval", tg))
                    r = absint.Enum(0, [Tok("value-of", tg)])
                    r.name = "Ok"
                    return r
                if c == as_boolean:
                    events.append(("as_boolean", a0.tag if isinstance(a0, Tok) else None))
                    return truth if isinstance(a0, Tok) and a0.tag == "T" else absint.UNKNOWN
                if c.endswith("std::ops::Try>::branch"):
                    if isinstance(a0, absint.Enum):
                        return absint.Enum(a0.variant, list(a0.fields))
                    return absint.UNKNOWN
                if callee_matches(tt, "std::convert::AsRef>::as_ref", "std::ops::Deref>::deref", "std::borrow::Borrow>::borrow",
                                  "<std::rc::Rc as std::clone::Clone>::clone", "std::option::Option::as_ref", "Option<T>::as_ref",
                                  "std::option::Option::as_deref", "Option<T>::as_deref"):
                    return a0
                return None
            try:
                kind, b, env = absint.run_fragment(f, 0, {1: expr, 2: Tok("env", "env")}, oracle=oracle, max_visits=6)
                res = env.get(0)
            except (absint.Stuck, absint.Loop) as e:
                ctx.inst("C01-truthiness", key, {"events": [list(x) for x in events], "result": "stuck"})
                ctx.undecided("C01-truthiness", key, "cannot follow the conditional evaluator on (if T C%s) with a %s test (%s)" % (
                    " A" if has_alt else "", truth, e), where_of(f))
                continue
            evs = [x for x in events if x[0] in ("eval", "tail")]
            want_arm = "C" if truth else ("A" if has_alt else None)
            got_test = bool(evs) and evs[0] == ("eval", "T")
            arms = [x[1] for x in evs[1:]]
            ok_arm = arms == ([want_arm] if want_arm else [])
            if want_arm:
                ok_res = _contains(res, lambda v: isinstance(v, Tok) and v.tag == want_arm) and \
                    not _contains(res, lambda v: isinstance(v, Tok) and v.tag not in (want_arm,))
            else:
                ok_res = _contains(res, lambda v: isinstance(v, absint.Enum) and getattr(v, "name", None) == "Void")
            ok_bool = ("as_boolean", "T") in events
            ctx.inst("C01-truthiness", key, {"events": [list(x) for x in events], "result": repr(res)[:120]})
            ctx.oblige(got_test and ok_arm and ok_res and ok_bool)
            if not (got_test and ok_bool):
                ctx.report("C01-truthiness", key + "/test", "the test is not evaluated first, once, and judged by as_boolean "
                           "(events %s)" % events, where_of(f))
            elif not ok_arm:
                ctx.report("C01-truthiness", key + "/arm", "on a %s test the evaluator runs %s of (if T C%s), expected %s" % (
                    truth, arms or "nothing", " A" if has_alt else "", [want_arm] if want_arm else "nothing"), where_of(f))
            elif not ok_res:
                ctx.report("C01-truthiness", key + "/value", "the value returned for (if T C%s) with a %s test is %s, expected %s"
                           % (" A" if has_alt else "", truth, repr(res)[:100], ("the value of " + want_arm) if want_arm else "the unspecified value"), where_of(f))
    return 1


def once_rule(ctx, fb, f, reg, eval_expression, apply_procedure, op_src, args_src, label):
    p = Prov(f)
    loops = f.loop_blocks()
    direct = [(b, t) for b, t in f.calls(reg) if callee(t) == eval_expression]

    def matches(o, src):
        r, pth = field_path(f, _through_deref(f, o))
        if src[0] == "arg":
            return r == src[1] and not [x for x in pth if x not in ("Some",)]
        return pth[-2:] == [src[0], src[1]]
    ops = [(b, t) for b, t in direct if matches(t["args"][0], op_src)]
    ctx.inst("C01-once", label + "/operator-evals", len(ops))
    if len(ops) != 1 or len(direct) != 1 or ops[0][0] in loops:
        ctx.report("C01-once", label + "/operator", "the operator must be evaluated by exactly one eval_expression call outside "
                   "loops (found %d direct evaluation(s), %d of the operator)" % (len(direct), len(ops)), where_of(f))
    maps = [(b, t) for b, t in f.calls(reg) if callee_matches(t, "std::iter::Iterator::map")]
    good = 0
    for b, t in maps:
        # receiver: iter over the operand slice
        recv = t["args"][0]
        l = mir.op_local(recv)
        ds = mir.defs_of(f).get(l, [])
        if not (len(ds) == 1 and ds[0][0] == "call" and callee_matches(ds[0][2], "<impl [T]>::iter", "IntoIterator>::into_iter")):
            continue
        if not matches(ds[0][2]["args"][0], args_src):
            continue
        clo = mir.trace_aggregate(f, t["args"][1])
        if not clo or clo["kind"]["k"] != "closure":
            continue
        c = fb.by_path(mir.norm(clo["kind"]["def"]))
        ev = [(bb, tt) for bb, tt in c.calls() if callee(tt) == eval_expression]
        pc = Prov(c)
        ok = len(ev) == 1 and ev[0][0] not in c.loop_blocks() and pc.arg_roots(ev[0][1]["args"][0]) == {2} \
            and pc.arg_roots(ev[0][1]["args"][1]) == {1}
        ctx.inst("C01-once", label + "/operand-map", {"closure": c.name, "evals_item_once_in_captured_env": ok})
        if ok and b not in loops:
            good += 1
        else:
            ctx.report("C01-once", label + "/operand-closure", "the operand closure does not evaluate its item exactly once in the "
                       "captured environment", where_of(c))
        # env captured = this function's env
        envl = clo["ops"][0] if clo["ops"] else None
        if envl is not None:
            want_env = 2 if label == "eval_expression" else 3
            if p.arg_roots(envl) != {want_env}:
                ctx.report("C01-once", label + "/operand-env", "operands are evaluated in an environment other than the caller's", where_of(f, t))
    if good != 1:
        ctx.report("C01-once", label + "/operands", "operands must be evaluated by exactly one map(eval_expression) over the operand "
                   "list (found %d)" % good, where_of(f))
    col = [(b, t) for b, t in f.calls(reg) if callee_matches(t, "std::iter::Iterator::collect")]
    if len(col) != 1:
        ctx.report("C01-once", label + "/collect", "operand values are not collected exactly once", where_of(f))
