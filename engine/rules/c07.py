"""C07 — No input can crash the interpreter (panic-site census with checked discharge arguments)."""
from . import mir, registry, absint
from .mir import callee, callee_matches, Prov
from .ctx import where_of, Ctx

EXPLANATION = (
    "Census of every panic-capable construct in the functions reachable (resolved call graph + trait-impl and "
    "nested-item over-approximation) from the public entry points of Interpreter, the REPL and main: calls of "
    "Option/Result unwrap/expect, core::panicking::* (panic!/todo!/unreachable!/assert!), i32::abs and operator calls on "
    "integers, std APIs that panic on bad indices, Overflow/DivisionByZero/RemainderByZero/BoundsCheck assert "
    "terminators, and RefCell borrow/borrow_mut.  Each site is an obligation that must be discharged by one of a "
    "closed list of *checked* arguments (arity of the registered builtin + per-application arity check; dominating "
    "test; checked key; non-empty; just-built pair; constant input; front-end I/O; counters bounded by memory or by "
    "input size; total numeric casts; parser invariant; guard liveness for RefCell borrows).  A site without a "
    "discharge is reported.  Index / slice sites in the macro expander and in the lexer's scanners that no argument bounds are "
    "decided by following probe inputs through the code (expander: template elements under an ellipsis whose variables matched runs "
    "of different lengths; lexer: texts with line breaks and multi-byte characters at every cut): a probe that reaches the panic is the "
    "violation, probes that pass through leave the site UNDECIDED.  Second clause: every Interpreter field written on paths from eval is classified as a "
    "monotone cache or as paired state (C14).")
NOT_DECIDED = ("stack exhaustion by deep nesting / deep non-tail recursion, non-termination and memory exhaustion (outside the "
               "property); panics inside third-party crates on their own internal invariants.")

ITP = "interpreter::interpreter::Interpreter::"
UNWRAPS = ("std::option::Option::unwrap", "std::option::Option::expect", "std::result::Result::unwrap",
           "std::result::Result::expect", "std::result::Result::unwrap_err", "std::result::Result::expect_err",
           "std::option::Option::unwrap_unchecked")
PANICKY_STD = ("std::vec::Vec::remove", "std::vec::Vec::swap_remove", "std::vec::Vec::insert", "std::vec::Vec::drain",
               "std::vec::Vec::split_off", "core::slice::<impl [T]>::split_at", "core::slice::<impl [T]>::copy_from_slice",
               "core::str::<impl str>::split_at", "std::string::String::remove", "std::string::String::insert",
               "std::string::String::truncate", "core::slice::<impl [T]>::chunks", "core::slice::<impl [T]>::windows",
               "std::iter::Iterator::step_by", "std::cell::RefCell::replace", "std::cell::RefCell::swap",
               "core::num::<impl i32>::pow", "core::num::<impl u32>::pow", "core::num::<impl i32>::abs",
               "std::ops::Index::index", "std::ops::IndexMut::index_mut", "core::slice::<impl [T]>::swap",
               "std::collections::VecDeque::swap", "smallvec::SmallVec::remove", "smallvec::SmallVec::insert",
               "smallvec::SmallVec::swap_remove", "smallvec::SmallVec::drain", "core::char::methods::<impl char>::to_digit",
               "core::char::methods::<impl char>::from_digit") + tuple(
    "core::num::<impl %s>::%s" % (ty, m_) for ty in ("i8", "i16", "i32", "i64", "isize", "u8", "u16", "u32", "u64", "usize")
    for m_ in ("wrapping_div", "wrapping_rem", "div_euclid", "rem_euclid", "wrapping_div_euclid", "wrapping_rem_euclid", "overflowing_div",
               "overflowing_rem", "saturating_div", "div_floor", "div_ceil", "next_multiple_of", "ilog", "ilog2", "ilog10", "isqrt"))
BORROWS = ("cell::RefCell::borrow", "cell::RefCell::borrow_mut", "std::cell::RefCell::borrow", "std::cell::RefCell::borrow_mut")


def build_graph(fb):
    g = {k: set(v) for k, v in fb.call_graph("lib").items()}
    funcs = {f.name: f for f in fb.all("lib")}
    # trait impls by self type (coarse): any call mentioning a local ADT may use its trait impl methods
    impl_by_ty = {}
    meth_by_name = {}
    for f in funcs.values():
        if f.trait and f.self_ty:
            base = mir.norm(f.self_ty).split("<")[0]
            impl_by_ty.setdefault(base, set()).add(f.name)
        if f.name.startswith("<") or "<impl " in f.name:
            meth_by_name.setdefault(f.name.rsplit("::", 1)[-1], set()).add(f.name)
    adts = set(fb.adts)
    for f in funcs.values():
        for b, t in f.calls():
            fn = t.get("fn")
            if not fn:
                continue
            if fn.get("resolved") is None:
                m = mir.norm(fn["def"]).rsplit("::", 1)[-1]
                g.setdefault(f.name, set()).update(meth_by_name.get(m, ()))
            if not fn.get("local"):
                txt = " ".join(fn.get("generics", [])) + " " + " ".join(t.get("argtys", []))
                for a in adts:
                    if a in txt:
                        g.setdefault(f.name, set()).update(impl_by_ty.get(a, ()))
    # nested items (closures, thread-local initialisers) of a function
    names = sorted(funcs)
    for n in names:
        pre = n + "::"
        for m in names:
            if m.startswith(pre):
                g.setdefault(n, set()).add(m)
    return g


def entry_points(fb):
    roots = [f.name for f in fb.all("lib") if f.name.startswith(ITP) and f.vis == "Public" and "{closure" not in f.name]
    roots += ["repl::run", "repl::run_with_interpreter", "<interpreter::interpreter::Interpreter as std::default::Default>::default",
              "interpreter::interpreter::LibraryLoader::register_library_factory", "library_factory::GenericLibraryFactory::from_char_stream"]
    return roots


def sites(fb, reach):
    out = []
    for f in fb.all("lib"):
        if f.name not in reach:
            continue
        for b, blk in enumerate(f.blocks):
            if blk["cleanup"]:
                continue
            t = blk["term"]
            if t["k"] == "call":
                c = callee(t) or ""
                if c in UNWRAPS:
                    out.append((f, b, t, "unwrap", c.rsplit("::", 2)[-2] + "::" + c.rsplit("::", 1)[-1]))
                elif c.startswith("core::panicking::") or c.startswith("std::rt::begin_panic") or c.startswith("std::panicking::"):
                    macros = mir.span_macros(t["span"])
                    m = next((x.rstrip("!") for x in macros if x.rstrip("!") in ("todo", "unreachable", "assert_eq", "assert", "panic", "unimplemented", "assert_ne", "debug_assert")), "panic")
                    out.append((f, b, t, "panic", m))
                elif c in PANICKY_STD or any(c.endswith(x) for x in ("as std::ops::Index>::index", "as std::ops::IndexMut>::index_mut")):
                    out.append((f, b, t, "std-panicky", c.rsplit("::", 1)[-1]))
                elif c in BORROWS:
                    out.append((f, b, t, "borrow", c.split("::")[0] + "::" + c.rsplit("::", 1)[-1]))
                elif c.startswith("<&i32 as std::ops::") or c.startswith("<i32 as std::ops::"):
                    out.append((f, b, t, "arith-call", c.rsplit("::", 1)[-1]))
            elif t["k"] == "assert":
                if t["kind"] in ("Misaligned", "NullDeref"):
                    continue
                out.append((f, b, t, "assert", t["kind"] + (":" + t["op"] if t.get("op") else "")))
    return out


def run(ctx):
    fb = ctx.fb()
    ctx.trust("rustc nightly MIR (panic-capable constructs appear as calls/asserts); third-party crates and std are trusted not "
              "to panic on the argument ranges stated in the discharge table (effect table)")
    ctx.assume("deep-recursion stack exhaustion, non-termination and memory exhaustion are outside the property")
    ctx.assume("inputs have fewer than 2^32 lines and columns (u32 position counters of the lexer)")
    g = build_graph(fb)
    reach = fb.reachable_from(entry_points(fb), graph=g)
    all_sites = sites(fb, reach)
    ctx.extra_cov["functions_reachable"] = len(reach)
    ctx.extra_cov["panic_sites"] = len(all_sites)
    ctx.rule("C07-census", "every panic-capable site reachable from the entry points is discharged by a checked argument")
    D = Discharger(ctx, fb, reach)
    per_key = {}
    totals = {}
    for (f, b, t, kind, what) in all_sites:
        ok, rule, why = D.discharge(f, b, t, kind, what)
        key = "%s/%s" % (short(f.name.split("::{closure")[0]), what)   # (a site moved into a closure of its function is the same site)
        if ok is None:
            # the argument that discharges this site on the pinned tree could not be evaluated on this code (its anchors moved)
            ctx.undecided("C07-census", key, "%s site `%s` in %s: %s" % (kind, what, f.name, why), where_of(f, t))
            continue
        ctx.oblige(ok)
        totals[(f.name, what)] = totals.get((f.name, what), 0) + 1
        ctx.inst("C07-census", key + ("@bb%d" % b), {"kind": kind, "discharged_by": rule if ok else None}, nontrivial=True)
        if not ok:
            per_key.setdefault(key, []).append((f, t, kind, what, why))
    # The functions of the pinned tree are the reference (engine/c07_baseline.json).  An undischarged site in one of them is a
    # violation: a discharge argument no longer holds, or a panic-capable construct was added without one.  Undischarged sites
    # in functions that did not exist there (helpers extracted by a restructuring) are code this census has no argument
    # for: UNDECIDED — a verdict would be a guess.
    import json as _json, os as _os
    try:
        _b = _json.load(open(_os.path.join(_os.path.dirname(_os.path.dirname(_os.path.abspath(__file__))), "c07_baseline.json")))
        baseline, known_fns = _b["sites"], set(_b.get("functions", []))
    except Exception:
        baseline, known_fns = None, set()
    # how many sites of each kind the crate has now, and had on the pinned tree: a helper extracted from an existing function takes
    # its sites along (the total stays), a panic-capable construct that was not there before makes the total grow
    now_total, base_total = {}, {}
    for (f_, b_, t_, kind_, what_) in all_sites:
        now_total[what_] = now_total.get(what_, 0) + 1
    for k_, n_ in (baseline or {}).items():
        w_ = k_.rsplit("|", 1)[-1]
        base_total[w_] = base_total.get(w_, 0) + n_
    excess = {w_: max(0, now_total.get(w_, 0) - base_total.get(w_, 0)) for w_ in now_total} if baseline is not None else {}
    for key, lst in sorted(per_key.items()):
        f, t, kind, what, why = lst[0]
        # a function that exists on the pinned tree is judged in full: a panic-capable construct added to it needs an
        # argument; sites inside functions that did not exist are "new code" when they merely moved there (extracted helpers),
        # but a construct that makes the crate's total of that kind grow is new wherever it was put
        if baseline is None or f.name.split("::{closure")[0] in known_fns:
            new = 0
        else:
            grown = min(len(lst), excess.get(what, 0))
            excess[what] = excess.get(what, 0) - grown
            new = len(lst) - grown
            if grown:
                why = "%s (a new function, but the crate now has more `%s` sites than the pinned tree: this one did not move here, it was added)" % (why, what)
        n_viol = max(0, len(lst) - new)
        if n_viol:
            ctx.report("C07-census", key, "%d undischarged %s site(s) `%s` in %s: %s" % (n_viol, kind, what, f.name, why), where_of(f, t))
        if len(lst) - n_viol:
            ctx.undecided("C07-census", key, "%d new %s site(s) `%s` in %s (not present on the pinned tree) for which no discharge "
                          "argument applies: %s" % (len(lst) - n_viol, kind, what, f.name, why), where_of(f, t))
    by_kind = {}
    for (f, b, t, kind, what) in all_sites:
        by_kind[kind] = by_kind.get(kind, 0) + 1
    ctx.extra_cov["sites_by_kind"] = by_kind
    if by_kind.get("unwrap", 0) < 40 or len(all_sites) < 90:
        ctx.undecided("C07-census", "floor", "the census found only %d sites (%s); the pinned tree has >= 90 with >= 40 unwrap-family calls" % (len(all_sites), by_kind))

    # ------------------------------------------------------------------ C07-main (bin)
    ctx.rule("C07-reader-probes", "boundary and malformed literals of every token class are tokenised, into tokens or a reported error, "
                                  "without the abstract run of the lexer reaching a panic")
    from . import lexrun as _lr
    _lr.probe_rule(ctx, "C07-reader-probes")
    ctx.rule("C07-expander-probes", "rule sets whose template elements under an ellipsis mention variables matched to runs of different "
                                    "lengths (either order), variables from outside the ellipsis, nested runs: the abstract run of the expander "
                                    "reaches no panic")
    from . import expandtables as _et2
    _et2.rule_probes(ctx, "C07-expander-probes")
    ctx.rule("C07-main", "front-end I/O unwraps in main are the only panic sites of the binary")
    mainf = fb.find("main", crate="bin")
    n = 0
    for b, t in mainf.calls():
        c = callee(t) or ""
        if c in UNWRAPS:
            n += 1
            p = Prov(mainf)
            roots = {x for _, x in p.call_roots(t["args"][0])}
            okio = roots and all(r in ("std::io::Write::write_fmt", "<termcolor::StandardStream as termcolor::WriteColor>::set_color") for r in roots)
            ctx.inst("C07-main", "main/unwrap#%d" % n, {"of": sorted(roots)})
            ctx.oblige(bool(okio))
            if not okio:
                ctx.report("C07-main", "main/unwrap/%s" % "+".join(sorted(r.rsplit("::", 1)[-1] for r in roots)), "main unwraps the result of %s" % sorted(roots), where_of(mainf, t))
        elif c.startswith("core::panicking::"):
            ctx.report("C07-main", "main/panic", "main panics explicitly", where_of(mainf, t))

    # ------------------------------------------------------------------ C07-state
    ctx.rule("C07-state", "after an error the same interpreter still works: written fields are monotone caches or paired")
    CLASS = {
        "env": ("shared frame", "bindings made before the error stay (C08: effects completed before the error are kept)"),
        "lib_loader": ("monotone cache", "factories are inserted only after a successful load (C14-no-negative-cache)"),
        "imported_library": ("paired", "in-progress set, released on all exits (C14-pairing)"),
        "libraries": ("monotone cache", "instances are inserted only after a successful instantiation"),
        "import_end": ("monotone flag", "false -> true once"),
        "program_directory": ("configuration", "set by eval_file before evaluation"),
        "syntax_env": ("shared frame", "macro definitions made before the error stay"),
        "_marker": ("phantom", ""),
    }
    fields = [x["name"] for x in fb.adt("interpreter::interpreter::Interpreter")["variants"][0]["fields"]]
    written = {}
    for f in fb.all("lib"):
        if f.name not in reach or not f.name.startswith(ITP):
            continue
        for b, i, s in f.stmts():
            if s["k"] == "assign":
                for e in s["place"]["proj"]:
                    if e["k"] == "field" and e.get("name") in fields and s["place"]["local"] == 1:
                        written.setdefault(e["name"], set()).add(f.name.rsplit("::", 1)[-1])
                if s["rv"]["k"] == "ref" and s["rv"].get("mut") and s["rv"]["place"]["local"] == 1:
                    for e in s["rv"]["place"]["proj"]:
                        if e["k"] == "field" and e.get("name") in fields:
                            written.setdefault(e["name"], set()).add(f.name.rsplit("::", 1)[-1])
                            break
    for name in fields:
        cl = CLASS.get(name)
        ctx.inst("C07-state", "field/" + name, {"class": cl[0] if cl else None, "written_by": sorted(written.get(name, []))})
        if cl is None:
            # (a field that does not exist on the pinned tree: nothing is known about it — not evidence of anything)
            ctx.undecided("C07-state", "field/" + name, "Interpreter.%s is not classified (monotone cache / paired / configuration): "
                       "an error between its writes could leave the interpreter inconsistent" % name, None)
    from . import libtables as _lt
    _lt.rule_state_after_body_failure(ctx, "C07-state")
    # libraries cache: inserted only on the Continue edge of the instantiation
    gl = fb.find(ITP + "get_library")
    p = Prov(gl)
    dom = gl.dominators()
    for b, t in gl.calls():
        if callee_matches(t, "HashMap::insert") and ".libraries" in mir.trace_place(gl, t["args"][0])[0]:
            ok = False
            for bb, tt in gl.calls():
                if callee_matches(tt, "Try>::branch") and any((c or "").endswith("new_library") for _, c in p.call_roots(tt["args"][0])):
                    sw = mir.result_switch_after(gl, bb)
                    if sw and sw[1].get(0) in dom[b]:
                        ok = True
            ctx.inst("C07-state", "libraries/insert-after-success", ok)
            has_anchor = any((callee(tt) or "").endswith("new_library") for _, tt in gl.calls())
            if not ok and not has_anchor:
                ctx.undecided("C07-state", "libraries/negative-cache", "get_library no longer instantiates through new_library: cannot tell "
                              "which `?` edges belong to the instantiation", where_of(gl, t))
            elif not ok:
                ctx.report("C07-state", "libraries/negative-cache", "a library instance is cached although instantiation may have failed", where_of(gl, t))
    return EXPLANATION, NOT_DECIDED


def short(name):
    if name.startswith("<"):
        return name
    parts = name.split("::")
    return "::".join(parts[-2:]) if len(parts) > 1 else name


# =============================================================================================


class Discharger:
    def __init__(self, ctx, fb, reach):
        self.ctx = ctx
        self.fb = fb
        self.reach = reach
        self.regs = registry.read(fb)
        self.reg_by_target = {}
        for r in self.regs:
            if r["target"]:
                self.reg_by_target.setdefault(r["target"], []).append(r)
        # C08 arity rule (precondition of D-arity)
        from . import c08
        sub = Ctx("C08", ctx.tier, ctx.seed)
        sub._fb = ctx._fb
        ap = fb.find(ITP + "apply_procedure")
        asp = fb.find(ITP + "apply_scheme_procedure")
        bpa = fb.find("values::BuiltinProcedureBody::apply")
        from . import evaltables
        self.table_ok, self.table_visited = evaltables.application_is_sound(fb)
        if self.table_visited:
            self.arity_ok = self.table_ok          # decision tables of the application (evaltables.py) decided every row
            try:
                if not self.table_ok and c08.arity_checked_by_callers(fb, ap):
                    self.arity_ok = None            # the count is checked where calls are made, not in apply_procedure: not decided here
            except Exception:
                pass
        else:
            try:
                # (the tables could not follow the application code: a shape rule can still *establish* the check where the
                # code keeps the pinned shape; where it does not recognise the code, nothing is known)
                self.arity_ok = True if c08.arity_rule(sub, fb, ap, asp, bpa) else None
            except Exception:
                self.arity_ok = None               # neither the tables nor the shape rule could establish it: arity arguments are undecided
        # chokepoint: builtin bodies only invoked from BuiltinProcedureBody::apply <- apply_procedure
        callers_ = fb.callers("lib")

        def _only_from_apply(nm, depth=4):
            # apply_procedure itself, or a helper all of whose callers are (a function extracted from it)
            nm = nm.split("::{closure")[0]
            if nm == ap.name:
                return True
            cs = {x.split("::{closure")[0] for x in callers_.get(nm, ())} - {nm}
            return depth > 0 and bool(cs) and all(_only_from_apply(x, depth - 1) for x in cs)
        def _checked_entry(fn_name, t_):
            # the `apply` builtin entering a builtin's body itself, with the argument count checked there (table: a real builtin of two
            # parameters, lists of 1, 2, 3 elements)
            if callee(t_) == bpa.name and fn_name.split("::{closure")[0].endswith("native::base::apply"):
                try:
                    return evaltables.native_apply_entry(fb)[0] is True
                except Exception:
                    return False
            return False
        self.choke_ok = all(_only_from_apply(f.name) or _checked_entry(f.name, t) for f, b, t in fb.call_sites(lambda t: callee(t) in (asp.name, bpa.name)))
        if not self.choke_ok:
            # further ways into the code that applies a user procedure, each behind a count check made at the call: not decided
            try:
                rest = [(f, b, t) for f, b, t in fb.call_sites(lambda t: callee(t) in (asp.name, bpa.name))
                        if not (_only_from_apply(f.name) or _checked_entry(f.name, t))]
                if rest and all(callee(t) == asp.name and c08.site_behind_arity_checker(fb, f, b, ap.name) for f, b, t in rest):
                    self.choke_ok = True
                    if self.arity_ok:
                        self.arity_ok = None
            except Exception:
                pass
        ctx.extra_cov["arity_precondition"] = self.arity_ok and self.choke_ok
        self.counts = {}
        # functions that may (transitively, over the over-approximated call graph) take a RefCell borrow: holding a guard
        # across a call to one of them can panic with BorrowError / BorrowMutError
        g = {k: set(v) for k, v in fb.call_graph("lib").items()}
        names = sorted(f.name for f in fb.all("lib"))
        for n in names:                       # closures / nested items run when their parent runs
            for m in names:
                if m.startswith(n + "::"):
                    g.setdefault(n, set()).add(m)
        # formatting: `x.to_string()`, `format!("{}", x)`, `write!(f, "{:?}", x)` run x's Display / Debug impl; the call goes through
        # std (ToString's blanket impl, fmt::Arguments), so the edge to the crate's impl has to be added from the type named at the site
        fmt_impls = {}
        for h in fb.all("lib"):
            if h.name.endswith("::fmt") and h.trait and h.self_ty and ("fmt::Display" in h.trait or "fmt::Debug" in h.trait):
                fmt_impls.setdefault(("Display" if "Display" in h.trait else "Debug", mir.norm(h.self_ty).split("<")[0]), set()).add(h.name)
        for h in fb.all("lib"):
            for _, t in h.calls():
                c = callee(t) or ""
                gens = [str(x) for x in ((t.get("fn") or {}).get("generics") or [])]
                kinds = ()
                if c.endswith("ToString>::to_string") or c.endswith("ToString::to_string"):
                    kinds = ("Display",)
                elif "fmt::rt::Argument" in c and c.rsplit("::", 1)[-1] in ("new_display", "new_debug"):
                    kinds = ("Display",) if c.endswith("new_display") else ("Debug",)
                gens = [x for x in gens if not x.startswith("'")]
                for kd in kinds:
                    for ty in gens[:1]:
                        base = mir.norm(ty.replace("&", "").strip()).split("<")[0]
                        for tgt in fmt_impls.get((kd, base), ()):
                            g.setdefault(h.name, set()).add(tgt)
        meths = {}
        for n in names:
            if n.startswith("<") or "<impl " in n:
                meths.setdefault(n.rsplit("::", 1)[-1], set()).add(n)
        # unresolved trait-method calls inside a generic function G: a local impl `<S as Trait>::m` is a possible target
        # only if G is somewhere instantiated with S (S named in the generics / argument types of a call of G, or in G's
        # own self type)
        inst_txt = {}
        for f in fb.all():
            for _, t in f.calls():
                c = callee(t)
                if c:
                    fn = t.get("fn") or {}
                    inst_txt[c] = inst_txt.get(c, "") + " " + " ".join(fn.get("generics", []) or []) + " " + " ".join(t.get("argtys", []) or [])
        byname = {f.name: f for f in fb.all("lib")}
        for f in fb.all("lib"):
            for _, t in f.calls():
                fn = t.get("fn")
                if fn and fn.get("resolved") is None:
                    owner = f.name.split("::{closure")[0]
                    txt = inst_txt.get(owner, "") + " " + (mir.norm(f.self_ty) if f.self_ty else "") + " " + " ".join(t.get("argtys", []) or [])
                    for cand in meths.get(mir.norm(fn["def"]).rsplit("::", 1)[-1], ()):
                        cf = byname[cand]
                        base = mir.norm(cf.self_ty).split("<")[0] if cf.self_ty else None
                        if base is None or base in txt or base.rsplit("::", 1)[-1] + "<" in txt:
                            g.setdefault(f.name, set()).add(cand)
        # calls through fn pointers: any local fn item whose address is taken and whose first parameter type fits
        taken = set()
        for f in fb.all("lib"):
            direct = {callee(t) for _, t in f.calls()}
            taken |= {x for x in g.get(f.name, ()) if x not in direct and "{closure" not in x and not x.startswith(f.name + "::")}
        self.indirect_targets = {}
        for f in fb.all("lib"):
            for _, t in f.calls():
                if t.get("fn") is None:
                    fty = t.get("fty") or ""
                    params = fty[fty.find("(") + 1:]
                    tg = {x for x in taken if byname[x].arg_count == len(t["args"]) and
                          (byname[x].arg_count == 0 or (byname[x].local_ty(1) or "?").replace("'_ ", "").replace("'a ", "") in params.replace("'a ", ""))}
                    g.setdefault(f.name, set()).update(tg)
                    self.indirect_targets[f.name] = len(tg)
        # builtin bodies (fn pointers and boxed closures) are invoked by BuiltinProcedureBody::apply: the registration table
        g.setdefault(bpa.name, set()).update(k for k in self.reg_by_target if k in byname)
        rev = {}
        for k, vs in g.items():
            for v in vs:
                rev.setdefault(v, set()).add(k)

        def closure(seed):
            seen, st = set(), list(seed)
            while st:
                x = st.pop()
                if x in seen:
                    continue
                seen.add(x)
                st.extend(rev.get(x, ()))
            return seen
        # (replace / swap / take / set borrow the cell mutably for the duration of the call)
        MOMENTARY = ("RefCell::replace", "RefCell::swap", "RefCell::take", "RefCell::set", "RefCell::replace_with")
        mut_sites = {f.name for f in fb.all("lib") for _, t in f.calls() if (callee(t) or "").endswith(("RefCell::borrow_mut",) + MOMENTARY)}
        any_sites = {f.name for f in fb.all("lib") for _, t in f.calls() if callee(t) in BORROWS} | mut_sites
        self.may_borrow_mut = closure(mut_sites)
        self.may_borrow = closure(any_sites)

    def reborrows(self, tt, mutable_guard):
        """can this call take a borrow that conflicts with a live guard (shared guard: a mutable borrow; mutable guard: any)?"""
        c = callee(tt) or ""
        if tt.get("fn") is None:
            return "<indirect call>"
        if c in (self.may_borrow if mutable_guard else self.may_borrow_mut):
            return c
        return None

    # -------------------------------------------------------------- dispatcher
    def discharge(self, f, b, t, kind, what):
        for rule in (self.d_vector_table, self.d_arity, self.d_arity_user, self.d_dominating_test, self.d_checked_key, self.d_nonempty, self.d_container_variant, self.d_variant_runs,
                     self.d_table, self.d_counter, self.d_total_cast, self.d_const_index, self.d_front_insert, self.d_front_remove, self.d_bounds, self.d_map_key_present, self.d_cell_momentary, self.d_borrow, self.d_known_arith,
                     self.d_const_input, self.d_div_guarded, self.d_zero_checked, self.d_variant_runs_callers, self.d_clamped_to_len, self.d_reader_slices, self.d_expander_probes):
            r = rule(f, b, t, kind, what)
            if r is not None:
                return r
        return (False, None, "no discharge rule applies")

    # -------------------------------------------------------------- D-clamped-to-len
    def d_clamped_to_len(self, f, b, t, kind, what):
        """v.split_off(at) / v.truncate-like positions where `at` is `x.min(v.len())` (or `min(x, v.len())`) of the same vector, the length
        taken right before with nothing that could change the vector in between: at <= len"""
        if not (kind == "std-panicky" and what in ("split_off",) and len(t.get("args") or []) >= 2):
            return None
        al = mir.op_local(t["args"][1])
        ds = mir.defs_of(f).get(al, []) if al is not None else []
        if len(ds) != 1 or ds[0][0] != "call" or not callee_matches(ds[0][2], "cmp::Ord::min", "cmp::min"):
            return None
        vec = mir.trace_access(f, t["args"][0])
        mb, mt = ds[0][1], ds[0][2]
        for side in mt["args"]:
            sl = mir.op_local(side)
            sd = mir.defs_of(f).get(sl, []) if sl is not None else []
            if len(sd) == 1 and sd[0][0] == "call" and callee_matches(sd[0][2], "Vec::len", "SmallVec::len", "<impl [T]>::len") and \
                    mir.trace_access(f, sd[0][2]["args"][0]) == vec:
                lb = sd[0][1]
                dom = f.dominators()
                if lb in dom[b] and mb in dom[b]:
                    region = ({x for x in f.reachable(lb, avoid=[b]) if b in f.reachable(x)} - {lb, b})
                    others = [1 for bb, tt in f.calls() if bb in region and bb != mb and any(mir.trace_access(f, a_)[0] == vec[0] for a_ in tt.get("args", []))]
                    if not others:
                        return (True, "D-clamped-to-len", "the position is min(_, v.len()) of the same vector, taken right before")
        return None

    # -------------------------------------------------------------- D-reader-slices
    def d_reader_slices(self, f, b, t, kind, what):
        """a slice / index site in a scanner of the lexer for which no argument applies (a piece of the text just scanned cut at an offset
        computed from it): texts with line breaks and multi-byte characters at every such cut are followed through the whole lexer — a
        reached panic is the violation; when they pass through this function without one there is neither proof nor counterexample"""
        if not (kind == "std-panicky" and what in ("index", "index_mut") and f.name.startswith("parser::lexer::")):
            return None
        from . import lexrun
        try:
            rows, vis = lexrun.slice_probes(self.fb)
        except Exception as e:  # pragma: no cover
            return (None, "D-reader-slices", "the reader probes could not be run: %r" % (e,))
        fn = f.name.split("::{closure")[0]
        hit = [r for r in rows if r[1] != "ok" and r[1][0] == "panic"]
        if hit:
            return (False, "D-reader-slices", "reading %r panics (%s)" % (hit[0][0], hit[0][1][1]))
        if any(str(v).split("::{closure")[0] == fn for v in vis) and not any(r[1] != "ok" for r in rows):
            return (None, "D-reader-slices", "no argument bounds the index; %d texts with line breaks and multi-byte characters inside strings, "
                    "|identifiers| and after comments pass through this function without reaching the panic (neither a proof nor a "
                    "counterexample)" % len(rows))
        return None

    # -------------------------------------------------------------- D-expander-probes
    def d_expander_probes(self, f, b, t, kind, what):
        """an indexing site in the template instantiation code for which no argument applies: whether the index stays below the
        length depends on how two walks over the same template relate, which none of the arguments above can express.  The expander
        probes (expandtables.PROBES: run lengths that differ in either order, variables from outside the ellipsis, nested runs)
        are followed through this code: a probe that reaches the panic is the violation; when every probe goes through this
        function and none panics there is neither a proof nor a counterexample — UNDECIDED."""
        if not (kind == "std-panicky" and what in ("index", "index_mut") and "parser::macros::" in f.name and "SyntaxTemplate" in f.name):
            return None
        from . import expandtables
        try:
            rows = expandtables.probes(self.fb)
        except Exception as e:  # pragma: no cover
            return (None, "D-expander-probes", "the expander probes could not be run: %r" % (e,))
        fn = f.name.split("::{closure")[0]
        hit = [r for r in rows if r[2][0] == "panic" and str(r[2][2]).split("::{closure")[0] == fn]
        if hit:
            return (False, "D-expander-probes", "reached with an index beyond the length: expanding %s on (m %s panics (%s)" % (hit[0][0], (hit[0][1] or "()")[1:], hit[0][2][1]))
        through = [r for r in rows if r[2][0] == "ok" and any(str(v).split("::{closure")[0] == fn for v in r[3])]
        stuck = [r for r in rows if r[2][0] == "stuck"]
        if through:
            return (None, "D-expander-probes", "no argument bounds the index; %d expander probes with run lengths that differ in either order go "
                    "through this function without reaching the panic%s (neither a proof nor a counterexample)" % (
                        len(through), (", %d could not be followed" % len(stuck)) if stuck else ""))
        return None

    # -------------------------------------------------------------- helpers
    def _is_procedure_body_end(self, f, t):
        """x.unwrap() where x is split_last() / last() / split_first() / first() of the body expressions of a SchemeProcedure (field 2
        of the parser's procedure node), followed through references and Vec / slice views"""
        src = self._unwrap_src(f, t)
        if not src or not callee_matches(src[1], "split_last", "split_first", "slice::<impl [T]>::last", "slice::<impl [T]>::first"):
            return False
        l = mir.op_local(src[1]["args"][0])
        for _ in range(8):
            ds = mir.defs_of(f).get(l, []) if l is not None else []
            if len(ds) != 1:
                return False
            d = ds[0]
            if d[0] == "call":
                if not callee_matches(d[2], "Deref>::deref", "Vec::as_slice", "AsRef>::as_ref", "Borrow>::borrow"):
                    return False
                l = mir.op_local(d[2]["args"][0])
                continue
            rv = d[3]["rv"]
            if rv["k"] == "use":
                pl = rv["op"].get("place")
            elif rv["k"] == "ref":
                pl = rv["place"]
            else:
                return False
            if not pl:
                return False
            proj = pl.get("proj") or []
            fields = [(k_, e_) for k_, e_ in enumerate(proj) if e_.get("k") == "field"]
            for (k1, e1), (k2, e2) in zip(fields, fields[1:]):
                if e1.get("ty") == "parser::parser::SchemeProcedure" and e2.get("i") == 2:
                    return all(e_.get("k") in ("deref", "field", "downcast") for e_ in proj)
            if fields and fields[0][1].get("i") == 2 and "parser::parser::SchemeProcedure" in f.local_ty(pl["local"]).replace("&", "").strip().split("<")[0]:
                return all(e_.get("k") in ("deref", "field", "downcast") for e_ in proj)
            if any(e_.get("k") != "deref" for e_ in proj):
                return False
            l = pl["local"]
        return False

    def _unwrap_src(self, f, t):
        """the call whose result is unwrapped (through Option::as_ref etc.)"""
        l = mir.op_local(t["args"][0])
        for _ in range(6):
            ds = mir.defs_of(f).get(l, []) if l is not None else []
            if len(ds) != 1:
                return None
            d = ds[0]
            if d[0] == "call":
                if callee_matches(d[2], "Option::as_ref", "Option::as_mut", "Option::take", "Result::ok", "Option::cloned"):
                    l = mir.op_local(d[2]["args"][0])
                    # through `&x`
                    ds2 = mir.defs_of(f).get(l, [])
                    if len(ds2) == 1 and ds2[0][0] == "stmt" and ds2[0][3]["rv"]["k"] == "ref":
                        l = ds2[0][3]["rv"]["place"]["local"]
                    continue
                return (d[1], d[2])
            rv = d[3]["rv"]
            if rv["k"] == "use":
                l = mir.op_local(rv["op"])
            elif rv["k"] == "ref":
                l = rv["place"]["local"]
            else:
                return None
        return None

    # -------------------------------------------------------------- D-variant-runs
    def d_variant_runs(self, f, b, t, kind, what):
        """`unwrap` / `expect` in a function whose arguments are enums of the crate: the function is evaluated abstractly
        (machine.py) once per combination of argument variants with opaque payloads; if every run completes and none reaches a
        failing unwrap, the site cannot fail for any argument (a variant is all such a function can branch on)."""
        if kind not in ("unwrap", "panic") or f.arg_count == 0 or f.arg_count > 2 or "{closure" in f.name:
            return None
        from . import machine, absint
        import itertools
        # (also a pair of enums handed over as one tuple argument, and an `unreachable!()` / `panic!()` arm instead of an unwrap)
        combos_ = self._variant_choices(f)
        if combos_ is not None and (kind == "panic" or any((f.local_ty(i) or "").strip().startswith("(") for i in range(1, f.arg_count + 1))):
            n_ = 0
            for combo in combos_:
                n_ += 1
                mc = machine.Machine(self.fb, max_visits=6, budget=300)
                try:
                    mc.run(f, list(combo))
                except Exception:
                    return None
                if any(e[0] in ("panic", "diverge") for e in mc.events):
                    return None
            return (True, "D-variant-runs", "evaluated for every combination of the variants of its enum arguments (%d), the function never "
                    "reaches a panicking arm or a failing unwrap" % n_)
        if kind != "unwrap":
            return None
        choices = []
        for i in range(1, f.arg_count + 1):
            ty = (f.local_ty(i) or "").replace("&mut ", "").replace("&", "").strip()
            base = mir.norm(ty).split("<")[0]
            try:
                vs = self.fb.variants(base)
            except Exception:
                return None
            if not vs or len(vs) > 8:
                return None
            adt = self.fb.adt(base)
            opts = []
            for vi, vn in vs:
                nf = len(adt["variants"][vi]["fields"])
                e = absint.Enum(vi, [machine.Val("payload-%s-%d" % (vn, k)) if hasattr(machine, "Val") else object() for k in range(nf)])
                e.name, e.adt = vn, base
                opts.append(e)
            choices.append(opts)
        n = 0
        for combo in itertools.product(*choices):
            if n > 24:
                return None
            n += 1
            mc = machine.Machine(self.fb, max_visits=6, budget=300)
            try:
                mc.run(f, list(combo))
            except Exception:
                return None
            if any(e[0] == "panic" for e in mc.events):
                return None
        return (True, "D-variant-runs", "evaluated for every combination of the variants of its enum arguments (%d), the function never "
                "reaches a failing unwrap" % n)

    def _variant_choices(self, g):
        """abstract arguments for every combination of the variants of g's (1..2, enum) parameters, or None"""
        from . import machine, absint
        import itertools
        if g.arg_count == 0 or g.arg_count > 2:
            return None
        choices = []
        for i in range(1, g.arg_count + 1):
            ty = (g.local_ty(i) or "").replace("&mut ", "").replace("&", "").strip()
            tuple_of = None
            if ty.startswith("(") and ty.endswith(")"):
                parts = [x.strip() for x in ty[1:-1].split(", ")]
                if len(parts) == 2 and parts[0] == parts[1]:
                    tuple_of, ty = 2, parts[0]            # a pair of the same enum, e.g. (Number, Number)
            base = mir.norm(ty).split("<")[0]
            try:
                vs = self.fb.variants(base)
            except Exception:
                return None
            if not vs or len(vs) > 8:
                return None
            adt = self.fb.adt(base)

            def mk(vi, vn, tag):
                nf = len(adt["variants"][vi]["fields"])
                e = absint.Enum(vi, [machine.Val("payload-%s-%s-%d" % (vn, tag, k)) if hasattr(machine, "Val") else object() for k in range(nf)])
                e.name, e.adt = vn, base
                return e
            if tuple_of:
                opts = [[mk(vi, vn, "l"), mk(vj, wn, "r")] for vi, vn in vs for vj, wn in vs]
            else:
                opts = [mk(vi, vn, "a%d" % i) for vi, vn in vs]
            choices.append(opts)
        combos = list(itertools.product(*choices))
        return combos if len(combos) <= 81 else None

    def d_variant_runs_callers(self, f, b, t, kind, what):
        """a panic site (`unreachable!()`, an `unwrap`) in a private function all of whose callers take enums of the crate: every
        caller is evaluated abstractly for every combination of the variants of its arguments; if every run completes and none
        reaches a panic or this function's diverging arm, the callers never hand this function the variant that arm is for"""
        if kind not in ("panic", "unwrap") or "{closure" in f.name or f.vis == "Public":
            return None
        from . import machine
        callers_ = {c_.split("::{closure")[0] for c_ in self.fb.callers("lib").get(f.name, ())} - {f.name}
        if not callers_ or len(callers_) > 3:
            return None
        total = 0
        for cn in sorted(callers_):
            g = self.fb.by_path(cn)
            if g is None:
                return None
            combos = self._variant_choices(g)
            if combos is None:
                return None
            for combo in combos:
                total += 1
                mc = machine.Machine(self.fb, max_visits=6, budget=400)
                try:
                    mc.run(g, list(combo))
                except Exception:
                    return None
                if any(e[0] == "panic" for e in mc.events) or any(e[0] == "diverge" and e[1] == f.name for e in mc.events):
                    return None
        return (True, "D-variant-runs", "every caller (%s), evaluated for every combination of the variants of its enum arguments (%d runs), "
                "completes without reaching this site" % (", ".join(sorted(short(c_) for c_ in callers_)), total))

    # -------------------------------------------------------------- D-container-variant
    def d_container_variant(self, f, b, t, kind, what):
        """`unreachable!()` / `panic!()` in the arm for variant V of a match on an element taken out of a local Vec (pop / iteration),
        where every element ever put into that Vec (push, in this function; the Vec is created here and never handed out) was put
        there inside a match arm, on the very value pushed, for a variant other than V.  Then no element of the Vec is a V."""
        if kind != "panic":
            return None
        preds = f.preds()
        if len(preds.get(b, ())) != 1:
            return None
        sb = next(iter(preds[b]))
        sw = next((x for x in mir.discriminant_switches(f) if x[0] == sb), None)
        if sw is None:
            return None
        _, place, adt, targets, other = sw
        vs = [v for v, tg in targets.items() if tg == b]
        if len(vs) != 1 or other == b:
            return None
        V = vs[0]
        # the matched element: ... = (pop result as Some).0
        cur, vec, steps = place["local"], None, 0
        while steps < 6:
            steps += 1
            ds = mir.defs_of(f).get(cur, [])
            if len(ds) != 1:
                return None
            d = ds[0]
            if d[0] == "call":
                c = callee(d[2]) or ""
                if c.endswith("Vec::pop") or c.endswith("Vec::<T>::pop") or c.endswith("Vec::<T, A>::pop"):
                    root, path = mir.trace_access(f, d[2]["args"][0])
                    vec = root if not path else None
                break
            rv = d[3]["rv"]
            if rv["k"] == "use" and mir.op_place(rv["op"]) is not None:
                cur = mir.op_place(rv["op"])["local"]
            elif rv["k"] == "ref":
                cur = rv["place"]["local"]
            else:
                return None
        if vec is None or not (f.local_ty(vec) or "").startswith("std::vec::Vec<"):
            return None
        # the Vec is local: made by Vec::new / with_capacity here, used only through push / pop / len / is_empty / drop
        dsv = mir.defs_of(f).get(vec, [])
        if not (len(dsv) == 1 and dsv[0][0] == "call" and (callee(dsv[0][2]) or "").rsplit("::", 1)[-1] in ("new", "with_capacity")):
            return None
        dom = f.dominators()
        switches = [x for x in mir.discriminant_switches(f) if x[2] == adt]
        pushes = 0
        for bb, tt in f.calls():
            if f.blocks[bb]["cleanup"]:
                continue
            uses_vec = any(mir.trace_access(f, a)[0] == vec for a in tt["args"] if mir.op_place(a) is not None)
            if not uses_vec:
                continue
            c = (callee(tt) or "").rsplit("::", 1)[-1]
            if c in ("pop", "len", "is_empty", "drop", "last", "clear", "deref", "drop_in_place"):
                continue
            if c != "push":
                return (False, "D-container-variant", "the Vec the element comes from is also used by %s" % (callee(tt),))
            pushes += 1
            proot, ppath = mir.trace_access(f, tt["args"][1])
            good = False
            for ssb, splace, sadt, stargets, sother in switches:
                sroot, spath = mir.trace_access(f, {"k": "copy", "place": {"local": splace["local"], "proj": []}})
                spath = spath + [e["i"] for e in splace["proj"] if e["k"] == "field"]
                if (sroot, spath) != (proot, ppath):
                    continue
                # the push is under this match (the switch dominates it) and cannot be reached from the arm for V without coming
                # through the match again
                tv = stargets.get(V, sother)
                if ssb in dom.get(bb, ()) and tv is not None and bb not in f.reachable(tv, avoid={ssb}):
                    good = True
            if not good:
                return None
        if not pushes:
            return None
        return (True, "D-container-variant", "every element pushed into the local Vec is pushed inside a match arm for a variant other than the "
                "one this arm handles (%d push site(s))" % pushes)

    # -------------------------------------------------------------- D-arity
    def d_arity(self, f, b, t, kind, what):
        if kind != "unwrap" or not what.startswith("Option::"):
            return None
        owner = f.name
        regs = self.reg_by_target.get(owner)
        if not regs:
            return None
        def reads(tt_):
            """the blocks of the `next()` calls whose results this unwrap takes apart: `next().unwrap()`, or
            `next().zip(next()).unwrap()` (Some exactly when both are); None when it unwraps something else"""
            s_ = self._unwrap_src(f, tt_)
            if not s_:
                return None
            if callee_matches(s_[1], "Iterator::next", "Iterator>::next"):
                return [s_[0]]
            if callee_matches(s_[1], "Option::zip", "Option::<T>::zip") and len(s_[1]["args"]) == 2:
                out_ = []
                for a_ in s_[1]["args"]:
                    l_ = mir.op_local(a_)
                    ds_ = mir.defs_of(f).get(l_, []) if l_ is not None else []
                    if len(ds_) == 1 and ds_[0][0] == "call" and callee_matches(ds_[0][2], "Iterator::next", "Iterator>::next"):
                        out_.append(ds_[0][1])
                    else:
                        return None
                return out_
            return None
        if not reads(t):
            return None
        fixed = min(r["fixed"] for r in regs)
        # count next().unwrap() along the longest acyclic path, none in loops
        loops = f.loop_blocks()
        nu = []
        for bb, tt in f.calls():
            if callee(tt) in UNWRAPS and not f.blocks[bb]["cleanup"]:
                nu.extend(reads(tt) or [])
        if any(x in loops for x in nu):
            return (False, "D-arity", "argument read with next().unwrap() inside a loop")
        longest = longest_count(f, set(nu))
        names = sorted(r["name"] for r in regs)
        if longest > fixed:
            return (False, "D-arity", "builtin %s is registered with %d fixed parameter(s) but reads up to %d arguments with "
                    "next().unwrap()" % (names, fixed, longest))
        if self.arity_ok is None:
            return (None, "D-arity", "whether every application is arity-checked could not be established on this tree (the application "
                    "tables did not decide every row and the anchors of the structural rule are gone)")
        if not (self.arity_ok and self.choke_ok):
            return (False, "D-arity", "the per-application arity check (C08-arity-per-application / chokepoint) does not hold, so a "
                    "builtin can be entered with too few arguments")
        return (True, "D-arity", "registered arity %d >= %d reads; every application is arity-checked" % (fixed, longest))

    def d_arity_user(self, f, b, t, kind, what):
        if kind == "unwrap" and self.table_visited and f.name in self.table_visited and f.name.startswith(ITP) \
                and not f.name.startswith(ITP + "eval_"):
            # the argument-binding code of an application, wherever it lives (apply_scheme_procedure, a helper, a closure):
            # the application table ran it for 0..3 arguments against fixed / rest / empty parameter lists; wrong counts are
            # rejected before it runs and no unwrap met None
            if self.table_ok and self.choke_ok:
                return (True, "D-arity-user", "application decision table (12 rows): wrong argument counts are rejected before binding, "
                                              "and binding never takes a missing argument")
            src_ = self._unwrap_src(f, t)
            if not src_ or not callee_matches(src_[1], "Iterator>::next", "Iterator::next"):
                return None             # (not an argument being read: another argument may apply)
            if self.arity_ok is None:
                return (None, "D-arity-user", "the count is checked where calls are made, not where they are applied: whether a wrong count "
                                              "can reach the binding code is not decided by the application table")
            return (False, "D-arity-user", "the application decision table shows a wrong argument count reaching the binding code")
        if kind != "unwrap" or not f.name.startswith(ITP + "apply_scheme_procedure::{closure"):
            return None
        src = self._unwrap_src(f, t)
        if not src or not callee_matches(src[1], "Iterator>::next", "Iterator::next"):
            return None
        # the closure is the visitor handed to iter_to_last over the applied procedure's formals
        parent = self.fb.find(ITP + "apply_scheme_procedure")
        visits = [tt for _, tt in parent.calls() if callee_matches(tt, "ParameterFormalsBody>>::iter_to_last")]
        if len(visits) != 1 or Prov(parent).arg_roots(visits[0]["args"][0]) != {1}:
            return (False, "D-arity-user", "the binding closure is not the visitor of the formals being bound")
        if f.loop_blocks():
            return (False, "D-arity-user", "more than one argument is consumed per formal")
        if self.arity_ok is None:
            return (None, "D-arity-user", "whether every application is arity-checked could not be established on this tree")
        if not (self.arity_ok and self.choke_ok):
            return (False, "D-arity-user", "the per-application arity check does not hold (C08), so fewer arguments than fixed formals "
                    "can reach this unwrap")
        return (True, "D-arity-user", "one argument per fixed formal; count >= fixed is checked for the applied procedure")

    # -------------------------------------------------------------- D-dominating-test
    def d_dominating_test(self, f, b, t, kind, what):
        if kind != "unwrap":
            return None
        # x.unwrap() where the block is dominated by the `false` edge of x.is_none() / true edge of x.is_some()
        l = mir.op_local(t["args"][0])
        base = None
        ds = mir.defs_of(f).get(l, [])
        if len(ds) == 1 and ds[0][0] == "call" and callee_matches(ds[0][2], "Option::as_ref", "Option::as_mut"):
            base = mir.trace_access(f, ds[0][2]["args"][0])[0]
        elif l is not None:
            base = mir.trace_access(f, t["args"][0])[0]
        if base is None:
            return None
        dom = f.dominators()
        for bb, tt in f.calls():
            if callee_matches(tt, "Option::is_none", "Option::is_some") and mir.trace_access(f, tt["args"][0])[0] == base:
                nb = f.blocks[tt["target"]]["term"]
                if nb["k"] != "switch":
                    continue
                zero = dict((v, x) for v, x in nb["targets"]).get(0)
                other = nb["otherwise"]
                some_edge = zero if callee_matches(tt, "Option::is_none") else other
                if some_edge in dom[b]:
                    # no write to base between the test and the unwrap
                    region = {x for x in f.reachable(some_edge, avoid=[b]) if b in f.reachable(x)}
                    writes = [1 for bb2, i2, s2 in f.stmts(region) if s2["k"] == "assign" and s2["place"]["local"] == base and not s2["place"]["proj"]]
                    if not writes:
                        return (True, "D-dominating-test", "dominated by the Some edge of a test on the same Option")
        # peek()==Some edge dominating an advance().unwrap() in the lexer
        src = self._unwrap_src(f, t)
        if src and callee_matches(src[1], "Lexer::advance"):
            for bb, tt in f.calls():
                if callee_matches(tt, "Peekable::peek"):
                    sw = mir.result_switch_after(f, bb)
                    if sw and sw[1].get(1) is not None and sw[1][1] in dom[b]:
                        # no other advance between the peek's Some edge and this one
                        advs = [x for x, t2 in f.calls() if callee_matches(t2, "Lexer::advance") and x != src[0]]
                        if mir.paths_avoiding(f, sw[1][1], [src[0]], advs) is not None and \
                                all(mir.paths_avoiding(f, sw[1][1], [a], []) is None or src[0] not in f.reachable(a) or a in f.loop_blocks() for a in advs):
                            return (True, "D-dominating-test", "the consumed character was just seen by peek()")
        return None

    # -------------------------------------------------------------- D-checked-key
    def d_checked_key(self, f, b, t, kind, what):
        if not f.name.startswith("environment::LexicalScope::"):
            return None
        if kind == "std-panicky" and what in ("index", "index_mut") and "HashMap<" in " ".join(str(x) for x in (t.get("argtys") or [])[:1]):
            src = (b, t)            # `map[name]`: panics on an absent key, like get(name).unwrap()
        elif kind != "unwrap":
            return None
        else:
            src = self._unwrap_src(f, t)
            if not src or not callee_matches(src[1], "HashMap::get", "HashMap::get_mut"):
                return None
        parent = self.fb.by_path(f.name.split("::{closure")[0])
        # semantic discharge: the scope-chain table (scopes.py) evaluates the primitive, its helpers and closures on a
        # chain of three frames for every subset of frames binding the name, and records any unwrap that meets None.
        # The primitives concerned are the ones this function is (part of) or is called from.
        from . import scopes
        prims = ("get", "get_mut", "set", "define")
        SC = "environment::LexicalScope::"
        callers = self.fb.callers("lib")
        users, todo, seen = set(), [parent.name], set()
        while todo:
            n = todo.pop()
            if n in seen:
                continue
            seen.add(n)
            short_ = n[len(SC):] if n.startswith(SC) else None
            if short_ in prims:
                users.add(short_)
            for c_ in callers.get(n, ()):
                c0 = c_.split("::{closure")[0]
                if c0.startswith(SC):
                    todo.append(c0)
        if users:
            rows = [(u, scopes.walk(self.fb, u, found)) for u in sorted(users) for found in scopes.subsets(3)]
            bad = [(u, r["panics"]) for u, r in rows if r.get("panics")]
            if bad:
                return (False, "D-checked-key", "the scope-chain table reaches a failing lookup: LexicalScope::%s, %s" % bad[0])
            if all("stuck" not in r for _, r in rows):
                return (True, "D-checked-key", "scope-chain table of LexicalScope::%s (%d rows, closures and helpers followed): "
                        "the mapped lookup never meets an absent key" % ("/".join(sorted(users)), len(rows)))
        if "{closure" not in f.name:
            return (None, "D-checked-key", "the scope-chain table could not follow the primitives that use this lookup")
        cks = [(bb, tt) for bb, tt in parent.calls() if callee_matches(tt, "HashMap::contains_key")]
        maps = [(bb, tt) for bb, tt in parent.calls() if callee_matches(tt, "Ref::map", "RefMut::map")]
        if len(cks) != 1 or len(maps) != 1:
            return (False, "D-checked-key", "contains_key / map shape not recognised")
        nb = parent.blocks[cks[0][1]["target"]]["term"]
        if nb["k"] != "switch":
            return (False, "D-checked-key", "contains_key is not branched on")
        true_t = nb["otherwise"]
        pp = Prov(parent)
        same_key = pp.arg_roots(cks[0][1]["args"][1]) == {2}
        pc = Prov(f)
        key_in_closure = 1 in pc.taint_reach(mir.op_local(src[1]["args"][1]))
        if true_t in parent.dominators()[maps[0][0]] and same_key and key_in_closure:
            return (True, "D-checked-key", "lookup of the key whose presence was just tested on the same frame")
        return (False, "D-checked-key", "the mapped lookup is not dominated by contains_key of the same name")

    # -------------------------------------------------------------- D-nonempty
    def d_nonempty(self, f, b, t, kind, what):
        if kind != "unwrap":
            return None
        src = self._unwrap_src(f, t)
        if not src or not callee_matches(src[1], "SmallVec::pop", "Vec::pop"):
            return None
        recv = mir.trace_access(f, src[1]["args"][0])[0]
        dom = f.dominators()
        for bb, tt in f.calls():
            if callee_matches(tt, "SmallVec::is_empty", "Vec::is_empty") and mir.trace_access(f, tt["args"][0])[0] == recv:
                nb = f.blocks[tt["target"]]["term"]
                if nb["k"] == "switch":
                    nonempty = dict((v, x) for v, x in nb["targets"]).get(0)
                    if nonempty in dom[b]:
                        return (True, "D-nonempty", "pop() on the !is_empty() edge")
            if callee_matches(tt, "Vec::len", "SmallVec::len") and mir.trace_access(f, tt["args"][0])[0] == recv:
                # `if v.len() != 1 { return Err }` -> on the other edge len == 1
                for b2, i2, s2 in f.stmts():
                    if s2["k"] == "assign" and s2["rv"]["k"] == "binop" and s2["rv"]["op"] in ("Ne", "Eq") \
                            and mir.op_local(s2["rv"]["l"]) == tt["dest"]["local"] and (mir.const_int(s2["rv"]["r"]) or 0) >= 1:
                        nb = f.blocks[b2]["term"]
                        if nb["k"] == "switch" and mir.op_local(nb["discr"]) == s2["place"]["local"]:
                            eq_edge = dict((v, x) for v, x in nb["targets"]).get(0) if s2["rv"]["op"] == "Ne" else nb["otherwise"]
                            if eq_edge in dom[b]:
                                return (True, "D-nonempty", "pop() where len() == %s was just established" % mir.const_int(s2["rv"]["r"]))
        return (False, "D-nonempty", "pop().unwrap() without a dominating non-emptiness test")

    # -------------------------------------------------------------- D-table (named exceptions with side conditions)
    def d_table(self, f, b, t, kind, what):
        fb = self.fb
        name = f.name
        key = (name, kind, what)
        self.counts[key] = self.counts.get(key, 0) + 1
        n = self.counts[key]

        def allow(maxn, reason, cond=True, rule="D-table"):
            if not cond:
                return (False, rule, "side condition failed: " + reason)
            if n > maxn:
                return (False, rule, "more sites of this kind than the %d the argument covers" % maxn)
            return (True, rule, reason)
        # --- pairs built a moment ago
        if name == "parser::pair::Pairable::from_pair_iter" and what == "Option::unwrap":
            src = self._unwrap_src(f, t)
            return allow(1, "D-just-built: `cdr` was assigned Self::from(GenericPair::Some(..)) in the same block, so either_pair_mut() is Left",
                         bool(src) and callee_matches(src[1], "Either::left"), "D-just-built")
        if name == "parser::parser::Parser::current_list_or_pair" and what == "Option::unwrap":
            src = self._unwrap_src(f, t)
            return allow(1, "D-just-built: `cdr` was assigned Datum::from(DatumList::Some(..)) just before", bool(src) and callee_matches(src[1], "Either::left"), "D-just-built")
        if name == "parser::parser::Parser::current_list_or_pair" and what == "assert_eq":
            return allow(1, "D-just-built: the tail's cdr is the Datum::from(DatumList::Empty) stored when the tail was created")
        if name.startswith("parser::parser::Parser::repeat::{closure") and what == "Option::unwrap":
            par = fb.find("parser::parser::Parser::repeat")
            tw = [1 for _, tt in par.calls() if callee_matches(tt, "Iterator::take_while")]
            return allow(1, "D-just-built: map(unwrap) after take_while(is_some)", bool(tw), "D-just-built")
        if name == "<parser::pair::GenericPair as std::iter::FromIterator>::from_iter" and what == "Result::unwrap":
            fpi = fb.find("parser::pair::GenericPair::from_pair_iter")
            errs = [1 for _, _, s, a, v in mir.aggregates(fpi) if v == "Err"]
            return allow(1, "from_pair_iter never returns Err (it builds Ok or diverges)", not errs)
        if name == "parser::pair::GenericPair::from_pair_iter" and what == "todo":
            callers = sorted({g.name.split("::{closure")[0] for g, bb, tt in fb.call_sites(lambda tt: callee(tt) == name)})
            okc = set(callers) <= {"<parser::pair::GenericPair as std::iter::FromIterator>::from_iter",
                                   "parser::macros::<impl error::Located<parser::macros::SyntaxTemplateBody>>::substitude_ellipsis_item"}
            return allow(1, "the item sequence starts with a Proper item (from_iter maps every item to Proper; substitude_ellipsis_item "
                         "replays the kinds produced by into_pair_iter, whose first item is Proper), so the result is a pair; callers: %s" % callers, okc)
        # --- parser invariants
        if (name.split("::{closure")[0] == ITP + "apply_scheme_procedure" and what in ("unreachable", "panic")) or \
                (kind == "unwrap" and name.startswith("interpreter::") and self._is_procedure_body_end(f, t)):
            # the arm for a procedure without body expressions: the crate's own lexer and parser are run on procedures whose body
            # is empty or holds definitions only — every one has to be refused (then no SchemeProcedure with an empty body exists)
            from . import readtables
            self.ctx.assume("hand-built ASTs that violate parser invariants (empty procedure body) are outside the property")
            if not hasattr(self, "_empty_bodies"):
                texts = ["(lambda ())", "(lambda (p1))", "(define (f1))", "(lambda () (define d1 1))", "(define (f1 p1) (define d1 1) (define d2 2))",
                         "(lambda p1)", "((lambda ()))"]
                res = [(tx, readtables.parse_statement(self.fb, tx + " ")) for tx in texts]
                ctl = readtables.parse_statement(self.fb, "(lambda () 1) ")
                if any(r[0] == "stuck" for _, r in res) or ctl[0] != "ok":
                    self._empty_bodies = (None, "the parser could not be followed on procedures with an empty body")
                else:
                    accepted = [tx for tx, r in res if r[0] != "error"]
                    self._empty_bodies = (not accepted, "the parser accepts %s: a procedure without a body expression reaches the evaluator" % accepted
                                          if accepted else "the parser refuses every procedure whose body is empty or holds definitions only (%d texts)" % len(texts))
            okb, whyb = self._empty_bodies
            if okb is None:
                return (None, "D-table", whyb)
            return (bool(okb), "D-table", "parser invariant: " + whyb)
        if name.endswith("ParameterFormalsBody>>::as_name") and what == "unreachable":
            tf = fb.find("parser::parser::Parser::transform_formals")
            validated = any(callee_matches(tt, "ParameterFormalsBody>>::split") for _, tt in tf.calls())
            return allow(1, "parser invariant: transform_formals validates the formals with split() (nested lists are rejected)", validated)
        if name == "parser::macros::<impl error::Located<parser::macros::SyntaxPatternBody>>::match_datum_stream" and what == "Option::unwrap":
            src = self._unwrap_src(f, t)
            if n > 1 and bool(src) and callee_matches(src[1], "HashMap::get_mut"):
                # a further site of the same shape: the argument was confirmed by reading for one site only — whether it covers this
                # one as well (the key is a variable of the repeated sub-pattern) is not decided here
                return (None, "D-table", "a second get_mut(..).unwrap() on the substitutions: the argument confirmed for one site is not extended to it")
            return allow(1, "the variables of the repeated sub-pattern were inserted into the substitutions when it matched the first item "
                         "(trusted argument about the matcher, listed in assumptions)", bool(src) and callee_matches(src[1], "HashMap::get_mut"))
        if name == "parser::macros::UserDefinedTransformer::transform":
            return None
        # --- front end
        if name == "repl::run_with_interpreter" and what == "Result::unwrap":
            src = self._unwrap_src(f, t)
            return allow(1, "D-io-main: stdout().flush() in the interactive front end", bool(src) and callee_matches(src[1], "Write>::flush"), "D-io-main")
        if name.split("::{closure")[0] == "repl::check_bracket_closed" and kind == "assert" and what.startswith("Overflow"):
            return allow(4, "D-input-size: parenthesis counter (i32) bounded by the number of tokens of one REPL submission", True, "D-input-size")
        if name == "interpreter::library::native::base::library_map" and what == "Result::unwrap":
            lmr = fb.find("interpreter::library::native::base::library_map_result")
            # the only fallible calls are `append` on freshly built proper parameter lists
            errsrc = sorted({callee(tt) for _, tt in lmr.calls() if callee_matches(tt, "Try>::branch")})
            apps = [tt for _, tt in lmr.calls() if callee_matches(tt, "ParameterFormalsBody>>::append")]
            brs = [tt for _, tt in lmr.calls() if callee_matches(tt, "Try>::branch")]
            return allow(1, "D-const-input: the table is built from constants; its only fallible step is ParameterFormals::append on a "
                         "proper list literal", len(apps) == len(brs) and len(apps) > 0, "D-const-input")
        return None

    # -------------------------------------------------------------- D-table (vector builtins)
    def d_vector_table(self, f, b, t, kind, what):
        """an indexing site inside vector-ref / vector-set!: the vector table (evaltables.vector_table) runs the builtin on a two-element
        vector with every index class — negative, in range, the length, beyond it, the ends of the i32 range — for a mutable and a
        literal vector; when every row completes without reaching a panic the index is in range whenever the site is reached"""
        short_ = f.name.split("::{closure")[0].rsplit("::", 1)[-1]
        if short_ not in ("vector_ref", "vector_set") or "native::base::" not in f.name or what not in ("index", "index_mut", "BoundsCheck"):
            return None
        from . import evaltables
        try:
            safe = evaltables.vector_access_is_safe(self.fb, short_)
        except Exception:
            return None
        if safe is None:
            return (None, "D-table", "the vector table could not follow %s on every index class" % short_)
        if safe:
            return (True, "D-table", "vector table: %s completes on every index class (negative, in range, the length, beyond, the ends of "
                    "the i32 range; mutable and literal vector) without reaching a panic" % short_)
        return None

    # -------------------------------------------------------------- D-counter / D-input-size
    def d_counter(self, f, b, t, kind, what):
        if kind != "assert" or not what.startswith("Overflow"):
            return None
        # find the checked operation feeding this assert
        cl = mir.op_place(t["cond"])
        if cl is None:
            return None
        for s in reversed(f.blocks[b]["stmts"]):
            if s["k"] == "assign" and s["place"]["local"] == cl["local"] and s["rv"]["k"] == "binop":
                rv = s["rv"]
                ty = rv.get("lty")
                c = mir.const_int(rv["r"])
                if rv["op"] == "AddWithOverflow" and c is None and mir.const_int(rv["l"]) == 1:
                    c = 1                           # `1 + n`
                if rv["op"] == "AddWithOverflow" and c == 1 and ty == "usize":
                    return (True, "D-interval", "usize counter incremented by one: bounded by a container or recursion depth already in memory")
                if rv["op"] == "SubWithOverflow" and c is not None and c >= 1 and ty in ("usize", "u32", "u64", "u8", "u16") and \
                        self._guarded_decrement(f, b, mir.op_local(rv["l"]), c):
                    return (True, "D-dominating-test", "unsigned decrement by %d dominated by a test that the value is at least %d" % (c, c))
                if rv["op"] == "AddWithOverflow" and c == 1 and ty == "u32" and f.name.startswith("parser::lexer::"):
                    return (True, "D-input-size", "line/column counter (assumption: fewer than 2^32 lines and columns)")
                if rv["op"] == "AddWithOverflow" and ty == "u32" and f.name.startswith("parser::lexer::"):
                    # the sum is what the lexer's position becomes (stored into its `location` field right after the check): the position
                    # advanced by a number of characters just consumed, or a column counted from the last line break
                    nxt, seen_ = [t.get("target")], set()
                    for _ in range(3):
                        nb_ = nxt.pop(0) if nxt else None
                        if nb_ is None or nb_ in seen_:
                            break
                        seen_.add(nb_)
                        for s2 in f.blocks[nb_]["stmts"]:
                            if s2["k"] == "assign" and any(e_.get("k") == "field" and e_.get("name") == "location" for e_ in s2["place"].get("proj") or []):
                                return (True, "D-input-size", "the sum becomes the lexer's line / column (assumption: fewer than 2^32 lines and columns)")
                        tm_ = f.blocks[nb_]["term"]
                        if tm_["k"] == "assert":
                            nxt.append(tm_.get("target"))
                break
        return None

    def _guarded_decrement(self, f, b, L, c):
        """is block b dominated by the true edge of `L > k` / `L >= k` / `L != 0` (k large enough) with L unchanged in between?"""
        if L is None:
            return False
        dom = f.dominators()
        defs_L = {bb for bb, i, s in f.stmts() if s["k"] == "assign" and s["place"]["local"] == L and not s["place"]["proj"]}
        for D in dom[b]:
            if D == b:
                continue
            term = f.blocks[D]["term"]
            if term["k"] != "switch":
                continue
            cl = mir.op_local(term["discr"])
            test = None
            copies = {L}
            for s in f.blocks[D]["stmts"]:
                if s["k"] != "assign" or s["place"]["proj"]:
                    continue
                rv = s["rv"]
                if rv["k"] == "use" and mir.op_local(rv["op"]) in copies:
                    copies.add(s["place"]["local"])
                if s["place"]["local"] == cl and rv["k"] == "binop" and mir.op_local(rv["l"]) in copies:
                    k = mir.const_int(rv["r"])
                    if k is not None and ((rv["op"] == "Gt" and k >= c - 1) or (rv["op"] == "Ge" and k >= c) or (rv["op"] == "Ne" and k == 0 and c == 1)):
                        test = rv["op"]
            if not test:
                continue
            true_t = term["otherwise"]
            if true_t not in dom[b]:
                continue
            # blocks on paths from the true edge to b that do not go through the test again
            between = {x for x in f.reachable(true_t, avoid=[D]) if b in f.reachable(x, avoid=[D])} - {b}
            if not (defs_L & between):
                return True
        return False

    def d_front_insert(self, f, b, t, kind, what):
        """`v.insert(0, x)`: the index of an insertion may equal the length, so the constant 0 is in range for every vector"""
        if kind != "std-panicky" or what != "insert" or len(t.get("args") or []) < 3:
            return None
        i = mir.trace_const(f, t["args"][1])
        if i and i.get("val") == 0:
            return (True, "D-front-insert", "insertion at the constant index 0 (an index <= len for every vector)")
        return None

    def d_bounds(self, f, b, t, kind, what):
        """index / removal below the length, unsigned subtraction that cannot go below zero, and sums of lengths and indices:
        decided from the tests that dominate the site (bounds.py)"""
        from . import bounds
        if kind == "std-panicky" and what in bounds.INDEXED:
            why = bounds.index_in_range(f, b, t)
            if why:
                return (True, "D-len-guard", why)
            return None
        if kind == "assert" and what.startswith("BoundsCheck"):
            why = bounds.bounds_check_holds(f, b, t)
            if why:
                return (True, "D-len-guard", why)
            return None
        if kind == "assert" and what in ("Overflow:Sub", "Overflow:Add"):
            cl = mir.op_place(t["cond"]) if t.get("cond") else None
            if cl is None:
                return None
            for s in reversed(f.blocks[b]["stmts"]):
                if s["k"] == "assign" and s["place"]["local"] == cl["local"] and s["rv"]["k"] == "binop":
                    rv = s["rv"]
                    if rv.get("lty") != "usize":
                        return None
                    if rv["op"] == "SubWithOverflow":
                        why = bounds.sub_no_underflow(f, b, rv)
                        if why:
                            return (True, "D-len-guard", why)
                    if rv["op"] == "AddWithOverflow" and bounds.memory_bounded(f, rv["l"]) and bounds.memory_bounded(f, rv["r"]):
                        return (True, "D-interval", "sum of lengths / indices / small constants: bounded by what is already in memory "
                                                    "(a container holds at most isize::MAX items)")
                    return None
        return None

    def d_map_key_present(self, f, b, t, kind, what):
        """`map[key]` (panics on an absent key) where every way to the site either found the key with `contains_key` or has just
        inserted it into the same map"""
        if kind != "std-panicky" or what not in ("index", "index_mut") or len(t.get("args") or []) < 2:
            return None
        if "HashMap<" not in " ".join(str(x) for x in (t.get("argtys") or [])[:1]) and "BTreeMap<" not in " ".join(str(x) for x in (t.get("argtys") or [])[:1]):
            return None
        from . import bounds
        M = bounds._place_text(f, t["args"][0])
        p = Prov(f)

        def key_roots(o):
            return {r for r in p.op_roots(o) if r[0] in ("arg", "call")}
        K = key_roots(t["args"][1])
        if not M or not K:
            return None
        cut_edges, cut_blocks = set(), set()
        for bb, tt in f.calls():
            if bb == b or f.blocks[bb]["cleanup"] or len(tt.get("args") or []) < 2:
                continue
            if bounds._place_text(f, tt["args"][0]) != M or not (key_roots(tt["args"][1]) & K):
                continue
            if callee_matches(tt, "HashMap::contains_key", "BTreeMap::contains_key"):
                nb = f.blocks[tt["target"]]["term"] if tt.get("target") is not None else None
                if nb and nb["k"] == "switch" and mir.op_local(nb["discr"]) == tt["dest"]["local"]:
                    cut_edges.add((tt["target"], nb["otherwise"]))                 # the `true` edge
            elif callee_matches(tt, "HashMap::insert", "BTreeMap::insert") and tt.get("target") is not None:
                cut_blocks.add(bb)
        if not cut_edges and not cut_blocks:
            return None
        # is the site reachable without taking a `key is there` edge and without passing an insert of the key?
        seen, todo = set(), [0]
        while todo:
            x = todo.pop()
            if x in seen:
                continue
            seen.add(x)
            if x == b:
                return None
            if x in cut_blocks:
                continue
            for y in f.succs(x):
                if (x, y) not in cut_edges:
                    todo.append(y)
        return (True, "D-checked-key", "every way to the lookup found the key with contains_key or has just inserted it into the same map")

    def d_cell_momentary(self, f, b, t, kind, what):
        """`cell.replace(v)` / `swap` borrow the cell for the duration of the call only: they panic when a guard of the same cell is
        live.  Guards held by callers are judged at the guard (this function counts as one that may borrow mutably); here: no guard
        is taken in this function at all."""
        if kind != "std-panicky" or what not in ("replace", "swap") or "RefCell" not in (callee(t) or ""):
            return None
        if any(callee(tt) in BORROWS for _, tt in f.calls()):
            return None
        return (True, "D-guard-liveness", "a momentary borrow in a function that holds no guard (guards of callers are judged where they are taken)")

    def d_front_remove(self, f, b, t, kind, what):
        """`v.remove(0)` / `v.swap_remove(0)` where a test that v is not empty dominates the site: `!v.is_empty()`, `v.first()` /
        `v.get(0)` / `v.last()` found to be Some (a match on it, or an equality with Some(..) that held)"""
        if kind != "std-panicky" or what not in ("remove", "swap_remove") or len(t.get("args") or []) < 2:
            return None
        i = mir.trace_const(f, t["args"][1])
        if not i or i.get("val") != 0:
            return None
        recv = mir.trace_access(f, t["args"][0])[0]
        dom = f.dominators()

        def edge_after(bb_call, want_true):
            """the successor block taken when the boolean / Option produced by the call at bb_call is true / Some"""
            tt = f.blocks[bb_call]["term"]
            nb = tt.get("target")
            for _ in range(4):
                if nb is None:
                    return None
                term = f.blocks[nb]["term"]
                if term["k"] == "switch":
                    tg = dict((v, x) for v, x in term["targets"])
                    return (term["otherwise"] if 0 in tg else tg.get(1)) if want_true else tg.get(0)
                if term["k"] == "goto":
                    nb = term["target"]
                    continue
                if term["k"] == "call" and callee_matches(term, "PartialEq::eq", "cmp::PartialEq>::eq", "Option::is_some"):
                    nb2 = term.get("target")
                    t2 = f.blocks[nb2]["term"] if nb2 is not None else None
                    if t2 and t2["k"] == "switch":
                        tg = dict((v, x) for v, x in t2["targets"])
                        return t2["otherwise"] if 0 in tg else tg.get(1)
                    return None
                return None
            return None
        def root_of(o):
            # through `&*v` / Deref::deref / as_slice: the vector the slice method is called on
            for _ in range(5):
                l = mir.op_local(o)
                ds = mir.defs_of(f).get(l, []) if l is not None else []
                if len(ds) == 1 and ds[0][0] == "call" and callee_matches(ds[0][2], "Deref::deref", "Deref>::deref", "DerefMut::deref_mut", "DerefMut>::deref_mut",
                                                                        "Vec::as_slice", "AsRef::as_ref", "AsRef>::as_ref", "Vec::as_mut_slice"):
                    o = ds[0][2]["args"][0]
                    continue
                if len(ds) == 1 and ds[0][0] == "stmt" and ds[0][3]["rv"]["k"] in ("ref", "use"):
                    rv = ds[0][3]["rv"]
                    pl = rv["place"] if rv["k"] == "ref" else mir.op_place(rv["op"])
                    if pl is not None and all(e["k"] == "deref" for e in pl["proj"]):
                        o = {"k": "copy", "place": {"local": pl["local"], "proj": []}}
                        continue
                break
            return mir.trace_access(f, o)[0]
        for bb, tt in f.calls():
            if not tt.get("args") or root_of(tt["args"][0]) != recv:
                continue
            if callee_matches(tt, "Vec::is_empty", "SmallVec::is_empty", "<impl [T]>::is_empty"):
                e = edge_after(bb, False)
                if e is not None and e in dom[b]:
                    return (True, "D-front-remove", "remove(0) on the !is_empty() edge")
            if callee_matches(tt, "<impl [T]>::first", "<impl [T]>::last", "<impl [T]>::get", "Vec::first", "Vec::last"):
                e = edge_after(bb, True)
                if e is not None and e in dom[b]:
                    return (True, "D-front-remove", "remove(0) where first() / get(0) was just found to be Some")
        return None

    def d_const_index(self, f, b, t, kind, what):
        if kind != "assert" or not what.startswith("BoundsCheck"):
            return None
        cl = mir.op_place(t["cond"])
        for s in reversed(f.blocks[b]["stmts"]):
            if s["k"] == "assign" and cl and s["place"]["local"] == cl["local"] and s["rv"]["k"] == "binop" and s["rv"]["op"] == "Lt":
                i = mir.trace_const(f, s["rv"]["l"])
                n = mir.trace_const(f, s["rv"]["r"])
                if i and n and isinstance(i.get("val"), int) and isinstance(n.get("val"), int) and i["val"] < n["val"]:
                    return (True, "D-const-index", "constant index %d into an array of %d" % (i["val"], n["val"]))
        return None

    # -------------------------------------------------------------- D-total-cast
    def d_total_cast(self, f, b, t, kind, what):
        if kind != "unwrap" or not what.startswith("Option::"):
            return None
        src = self._unwrap_src(f, t)
        if not src or not callee_matches(src[1], "num_traits::NumCast::from", "NumCast::from"):
            return None
        frm = " ".join(src[1].get("argtys", []))
        gens_ = [str(x) for x in ((src[1].get("fn") or {}).get("generics") or []) if not str(x).startswith("'")]
        # (the destination is the crate's real-number parameter — or a float type — and the source a primitive integer: wherever
        # the conversion is written)
        to_real = bool(gens_) and (gens_[0] in ("f32", "f64") or (len(gens_[0]) <= 2 and gens_[0][:1].isupper()))
        int_src = frm.replace("&", "").strip() in ("i8", "i16", "i32", "i64", "u8", "u16", "u32", "u64", "usize", "isize")
        if (f.name in ("values::upcast_oprands", "values::Number::as_real") and "i32" in frm) or (to_real and int_src):
            self.ctx.assume("the real type is a binary float (f32 in the product): NumCast::from::<i32> is total for it")
            inst = self._real_instantiations()
            if inst - {"f32", "f64"}:
                return (False, "D-total-cast", "Interpreter is instantiated with %s, for which the i32 conversion is not known to be total" % sorted(inst))
            return (True, "D-total-cast", "integer -> float conversion is total (instantiations: %s)" % sorted(inst))
        return None

    def _real_instantiations(self):
        out = set()
        for crate in ("bin", "lib"):
            for f in self.fb.all(crate):
                for l in f.locals:
                    ty = l["ty"]
                    import re as _re
                    for cand in _re.findall(r"interpreter::Interpreter<(?:'[A-Za-z_0-9]+, ?)?([A-Za-z_][A-Za-z0-9_:]*)>", ty):
                        if cand in ("f32", "f64"):
                            out.add(cand)
                        elif cand and not (len(cand) <= 2 and cand[:1].isupper()) and not cand.startswith("'"):
                            out.add(cand)               # (one- or two-letter upper-case names are type parameters)
        return out

    # -------------------------------------------------------------- D-known-arith: exact i32 arithmetic (C09 class)
    def d_known_arith(self, f, b, t, kind, what):
        """Overflow asserts / i32::abs of the exact arithmetic: discharged iff the full-range interval analysis of C09
        shows the operation cannot leave its type for any i32 operands."""
        if not ((kind == "assert" and what.startswith("Overflow")) or (kind == "std-panicky" and what == "abs") or kind == "arith-call"):
            return None
        from . import c09
        if getattr(self, "_fails", None) is None:
            paths = dict(c09.OPS2)
            paths.update(c09.OPS1)
            paths.update(c09.CMPS)
            self._fails = c09.full_range_failures(self.fb, paths, pos_den_only=c09.sign_invariant_holds(self.fb))
            self._analysed = set()
            for opn, path in paths.items():
                self._analysed.add(path)
            self._analysed.add("values::Number::positive_denominator")
            self._analysed |= set(getattr(c09.full_range_failures, "visited", ()))      # helpers the interval interpreter went through
        if f.name not in self._analysed:
            return None
        op = "Neg" if what.startswith("OverflowNeg") else (what.split(":", 1)[1] if ":" in what else what)
        op = {"mul": "Mul", "add": "Add", "sub": "Sub"}.get(op, op)
        if (f.name, op) in self._fails and len(self._fails[(f.name, op)]) > 3 and self._fails[(f.name, op)][3] is None:
            return (None, "D-interval", "interval analysis cannot bound the i32 %s (case %s) and no boundary operand makes it overflow: "
                    "the operands are related in a way intervals do not express" % (op, self._fails[(f.name, op)][0]))
        if (f.name, op) in self._fails:
            return (False, "D-interval", "the i32 %s can leave the i32 range for some operands (interval analysis, case %s): the "
                    "checked build panics" % (op, self._fails[(f.name, op)][0]))
        return (True, "D-interval", "interval analysis over all i32 operands: the operation cannot overflow")

    # -------------------------------------------------------------- D-div-guarded
    def d_div_guarded(self, f, b, t, kind, what):
        if kind == "std-panicky" and what in self.INT_DIV_METHODS and f.name in ("values::Number::floor", "values::Number::ceiling") and \
                len(t.get("args") or []) >= 2 and mir.trace_access(f, t["args"][1]) == (1, ["Rational", 1]):
            # an integer division method of the same operands as the `/` it stands for: the divisor is the denominator of the ratio
            # the function was called on.  Zero: the invariant below.  i32::MIN over -1 (the method's other panic): denominators are
            # positive (C09-denominator-sign decides that for every function that builds a ratio)
            self.ctx.assume("ratio denominators are positive (C09-denominator-sign): an integer division method applied to a ratio's "
                            "numerator and denominator never sees the divisor -1")
        elif kind != "assert" or not (what.startswith("DivisionByZero") or what.startswith("RemainderByZero")):
            return None
        DIVF = "<values::Number as std::ops::Div>::div"
        if f.name.split("::{closure")[0] == DIVF:
            # symbolic table (numtables.zero_guard_table): on every path that reaches one of the compiler's divide-by-zero assertions
            # the tests passed so far exclude a zero divisor
            from . import numtables
            sub0 = Ctx("C09", self.ctx.tier, self.ctx.seed)
            sub0._fb = self.ctx._fb
            if not hasattr(self, "_zg"):
                self._zg = numtables.rule_zero_guards(sub0, "C09-exact")
            if self._zg is True:
                return (True, "D-div-guarded", "on every path to the assertion the tests passed exclude a zero divisor (symbolic table, C09-exact)")
            if self._zg is False:
                return (False, "D-div-guarded", "the division is reached with a zero divisor (C09-exact/div/zero-guards)")
            if f.name != DIVF:
                return (None, "D-div-guarded", "the division sits in a closure of Number::div and the symbolic table could not follow it")
            # shared rule: the divisor passed check_division_by_zero on this path
            from .c08 import div_zero_rule
            sub = Ctx("C08", self.ctx.tier, self.ctx.seed)
            sub._fb = self.ctx._fb
            div_zero_rule(sub, self.fb)
            if not sub.reports:
                return (True, "D-div-guarded", "check_division_by_zero dominates the division (C08-vector/C09-zero)")
            return (False, "D-div-guarded", "the zero test of the divisor does not hold (C09-zero)")
        if f.name in ("values::Number::floor", "values::Number::ceiling"):
            # invariant: a ratio's denominator is never zero (reader rejects n/0, Div tests every divisor factor,
            # Add/Sub/Mul multiply non-zero denominators) — the constructors are checked by C09-zero / C06
            self.ctx.assume("ratio denominators are non-zero: literals n/0 are rejected by the lexer (RationalDivideByZero), division "
                            "tests every divisor factor (C09-zero), and + - * multiply non-zero denominators")
            # what the reader does with n/0 (abstract run of the whole lexer, lexrun.py): an error, never a Rational token
            from . import lexrun
            if not hasattr(self, "_ratio_zero"):
                rows = [lexrun.lex(self.fb, t) for t in ("1/0 ", "-3/0 ", "0/0 ", "7/00 ")]
                self._ratio_zero = all(r and r[-1][0] == "error" and not any(x[0] == "Rational" for x in r) for r in rows)
            guard = self._ratio_zero
            return (guard, "D-div-guarded", "denominator non-zero by construction (reader + C09-zero)" if guard else "the reader no longer rejects n/0")
        return None

    # -------------------------------------------------------------- D-zero-checked
    INT_DIV_METHODS = ("wrapping_div", "wrapping_rem", "div_euclid", "rem_euclid", "wrapping_div_euclid", "wrapping_rem_euclid",
                       "overflowing_div", "overflowing_rem", "saturating_div")

    def d_zero_checked(self, f, b, t, kind, what):
        """a division / remainder (the compiler's zero-divisor assertion, or an integer method that panics on a zero divisor) whose
        divisor went through `check_division_by_zero(d)?` on every path: the Continue edge of that `?` dominates the site"""
        if kind == "assert" and (what.startswith("DivisionByZero") or what.startswith("RemainderByZero")):
            div = None
            cl = mir.op_place(t["cond"])
            for s_ in reversed(f.blocks[b]["stmts"]):
                if s_["k"] == "assign" and cl and s_["place"]["local"] == cl["local"] and s_["rv"]["k"] == "binop" and s_["rv"]["op"] == "Eq":
                    div = s_["rv"]["l"]
                    break
        elif kind == "std-panicky" and what in self.INT_DIV_METHODS and len(t.get("args") or []) >= 2:
            div = t["args"][1]
        else:
            return None
        if div is None:
            return None
        dom = f.dominators()
        # the divisor is a local that a dominating test has just found different from zero (`while b != 0 { a % b }`, `if d == 0 { return }`),
        # and nothing assigns it between the test and the division
        def _root(blk_, op_, depth=3):
            # the variable a temporary was copied from inside the block (`_13 = copy _4; Ne(move _13, 0)`)
            l_ = mir.op_local(op_) if isinstance(op_, dict) and not (op_.get("place") or {}).get("proj") else None
            while l_ is not None and depth > 0:
                depth -= 1
                src_ = [s_ for s_ in blk_["stmts"] if s_["k"] == "assign" and s_["place"]["local"] == l_ and not s_["place"]["proj"]]
                if len(src_) == 1 and src_[0]["rv"]["k"] == "use" and src_[0]["rv"]["op"].get("k") in ("copy", "move") and \
                        not (src_[0]["rv"]["op"].get("place") or {}).get("proj"):
                    l_ = src_[0]["rv"]["op"]["place"]["local"]
                else:
                    break
            return l_

        def _is_zero(op_):
            c_ = op_.get("c") if isinstance(op_, dict) and op_.get("k") == "const" else None
            return isinstance(c_, dict) and c_.get("val") == 0 and not isinstance(c_.get("val"), bool)
        dl = _root(f.blocks[b], div)
        if dl is not None:
            for bb, blk in enumerate(f.blocks):
                tm = blk["term"]
                if tm["k"] != "switch" or blk["cleanup"]:
                    continue
                tl = mir.op_local(tm["discr"])
                nz = None
                tg = dict((v_, x_) for v_, x_ in tm["targets"])
                if _root(blk, tm["discr"]) == dl and tm.get("dty") != "bool":
                    nz = tm["otherwise"] if 0 in tg else None
                else:
                    for s_ in reversed(blk["stmts"]):
                        if s_["k"] == "assign" and s_["place"]["local"] == tl and not s_["place"]["proj"]:
                            rv = s_["rv"]
                            if rv["k"] == "binop" and rv["op"] in ("Eq", "Ne"):
                                sides = (rv["l"], rv["r"])
                                loc_side = [x for x in sides if x.get("k") != "const" and _root(blk, x) == dl]
                                zero_side = [x for x in sides if _is_zero(x)]
                                if loc_side and zero_side:
                                    nz = tg.get(0) if rv["op"] == "Eq" else (tm["otherwise"] if 0 in tg else None)
                            break
                if nz is None or nz not in dom[b]:
                    continue
                region = {x for x in f.reachable(nz, avoid=[b]) if b in f.reachable(x)} | {nz}
                writes = [1 for bb2, i2, s2 in f.stmts(region) if s2["k"] == "assign" and s2["place"]["local"] == dl and not s2["place"]["proj"]
                          and not (bb2 == b)]
                if not writes:
                    return (True, "D-zero-checked", "the divisor was just found different from zero by a test that dominates the division, and is not assigned in between")
        p = Prov(f)
        acc = mir.trace_access(f, div)
        for cb, ct in f.calls():
            if not callee_matches(ct, "values::check_division_by_zero"):
                continue
            if mir.trace_access(f, ct["args"][0]) != acc:
                continue
            for bb, tt in f.calls():
                if callee_matches(tt, "std::ops::Try::branch") and ("call", cb, callee(ct)) in p.op_roots(tt["args"][0]):
                    sw = mir.result_switch_after(f, bb)
                    if sw and sw[1].get(0) is not None and sw[1][0] in dom[b]:
                        return (True, "D-zero-checked", "the divisor passed check_division_by_zero(..)? on every path to this site")
        return None

    # -------------------------------------------------------------- D-const-input
    def d_const_input(self, f, b, t, kind, what):
        if kind != "unwrap":
            return None
        if f.name == ITP + "register_stdlib_factories" or f.name == ITP + "import_stdlib":
            # (i) census of shared mutable state clean, (ii) bundled sources accepted by Engine C
            from . import c19
            sub = Ctx("C19", self.ctx.tier, self.ctx.seed)
            sub._fb = self.ctx._fb
            try:
                c19.run(sub)
            except Exception as e:  # pragma: no cover
                return (None, "D-const-input", "the census of shared state (C19) could not be evaluated: %r" % (e,))
            clean = not any(r["rule"] == "C19-global-census" for r in sub.reports)
            if not clean:
                return (False, "D-const-input", "the bundled libraries are parsed with syntax state shared between instances (C19-global-census)")
            wf = True
            why = ""
            try:
                from scm import library as scmlib
                wf, why = scmlib.bundled_wellformed()
            except ImportError:
                self.ctx.note("Engine C not available: well-formedness of the bundled .sld files is assumed for D-const-input")
            if not wf:
                return (False, "D-const-input", "a bundled library source is not well-formed: " + why)
            return (True, "D-const-input", "constant compiled-in input, parsed with per-instance syntax state")
        return None

    # -------------------------------------------------------------- D-guard-liveness (RefCell borrows)
    def d_borrow(self, f, b, t, kind, what):
        if kind != "borrow":
            return None
        # the guard (or anything holding it) must not be live across a call that can borrow the same cell
        # again in a conflicting way: the evaluator, define/set/get_mut, vector-set!.
        fb = self.fb
        mutable = what.endswith("borrow_mut")
        guard = t["dest"]["local"]
        p = Prov(f)
        holders = {l for l in range(len(f.locals)) if guard in p.taint_reach(l) and is_guard_ty(f.local_ty(l))} | {guard}
        # live region: from the borrow to the drop of every holder (or function exit)
        drops = {bb for bb, blk in enumerate(f.blocks) if blk["term"]["k"] == "drop" and blk["term"]["place"]["local"] in holders}
        drops |= consumed_by_value(f, holders)
        empties = empty_arms(f, holders)
        start = t.get("target")
        if start is None:
            return (True, "D-guard-liveness", "diverges")
        region = (f.reachable(start, avoid=drops | empties) - empties) | drops
        DANGER = (ITP + "eval_expression", ITP + "apply_procedure", ITP + "eval_procedure_call", ITP + "apply_scheme_procedure",
                  ITP + "eval_tail_expression", "values::BuiltinProcedureBody::apply")
        risky = []
        for bb, tt in f.calls(region):
            c = callee(tt) or ""
            if bb == b:
                continue
            if c in DANGER or tt.get("fn") is None:
                risky.append(c or "<indirect call>")
            elif self.reborrows(tt, mutable) and not (f.name.startswith("environment::LexicalScope::") and c == f.name) \
                    and not c.startswith("environment::LexicalScope::") and c not in BORROWS:
                risky.append(c)
            if c in ("environment::LexicalScope::define", "environment::LexicalScope::set", "environment::LexicalScope::get_mut") or \
                    (mutable and c in ("environment::LexicalScope::get",)) or c in BORROWS and bb != b and mutable:
                # the recursive parent call of LexicalScope::set / get / get_mut is on a different cell (the parent frame)
                if f.name.startswith("environment::LexicalScope::") and c == f.name:
                    from .c01 import _named_path, _through_deref
                    if "parent" in [str(x) for x in _named_path(f, _through_deref(f, tt["args"][0]))]:
                        continue
                risky.append(c)
        escapes = 0 in holders
        if risky:
            return (False, "D-guard-liveness", "a RefCell guard is live across %s (re-entrant borrow would panic)" % sorted(set(risky)))
        if escapes:
            # returned guards: every caller must consume them without re-entering (checked at the callers: get/as_ref/as_mut users)
            callers_ok, why = self._returned_guard_users(f)
            if not callers_ok:
                return (False, "D-guard-liveness", why)
            return (True, "D-guard-liveness", "guard is returned; every caller releases it before re-entering the evaluator")
        return (True, "D-guard-liveness", "guard dies before any call that could borrow the same cell")

    def _returned_guard_users(self, f):
        fb = self.fb
        DANGER = (ITP + "eval_expression", ITP + "apply_procedure", ITP + "eval_procedure_call", ITP + "apply_scheme_procedure",
                  ITP + "eval_tail_expression", "values::BuiltinProcedureBody::apply", "environment::LexicalScope::define",
                  "environment::LexicalScope::set")
        for g, bb, tt in fb.call_sites(lambda tt: callee(tt) == f.name):
            if g.name not in self.reach or g.name == f.name:
                continue
            guard = tt["dest"]["local"]
            p = Prov(g)
            holders = {l for l in range(len(g.locals)) if guard in p.taint_reach(l) and is_guard_ty(g.local_ty(l))} | {guard}
            drops = {x for x, blk in enumerate(g.blocks) if blk["term"]["k"] == "drop" and blk["term"]["place"]["local"] in holders}
            drops |= consumed_by_value(g, holders)
            empties = empty_arms(g, holders)
            if tt.get("target") is None:
                continue
            region = g.reachable(tt["target"], avoid=drops | empties) - empties
            for b2, t2 in g.calls(region):
                c = callee(t2) or ""
                mutable = "RefMut" in (g.local_ty(guard) or "")
                if c in DANGER or (t2.get("fn") is None) or (self.reborrows(t2, mutable) and not
                                                               (g.name.startswith("environment::LexicalScope::") and c == g.name)):
                    return (False, "%s holds the guard returned by %s across %s" % (g.name, f.name, c or "an indirect call"))
            if 0 in holders and g.name not in ("environment::LexicalScope::get", "environment::LexicalScope::get_mut"):
                ok, why = self._returned_guard_users(g)
                if not ok:
                    return (ok, why)
        return (True, "")


def empty_arms(f, holders):
    """targets of `match holder { None => .. }` / `Err(_) => ..` arms: the holder carries no guard there"""
    out = set()
    preds = f.preds()
    for sb, place, adt, targets, other in mir.discriminant_switches(f):
        if place["local"] not in holders or place["proj"]:
            continue
        ty = f.local_ty(place["local"]) or ""
        empty = None
        if ty.startswith("std::option::Option<"):
            empty = 0
        elif ty.startswith("std::result::Result<") and not is_guard_ty(ty.rsplit(",", 1)[-1]):
            empty = 1
        if empty is None:
            continue
        tgt = targets.get(empty)
        if tgt is None and (1 - empty) in targets and other is not None and other != targets[1 - empty]:
            tgt = other
        if tgt is not None and len(preds[tgt]) == 1:
            out.add(tgt)
    return out


def consumed_by_value(f, holders):
    """blocks whose call takes a guard holder by value and gives no guard back (mem::drop(guard), a consuming method)"""
    out = set()
    for b, t in f.calls():
        if f.blocks[b]["cleanup"]:
            continue
        for a in t["args"]:
            if a.get("k") == "move" and not a["place"]["proj"] and a["place"]["local"] in holders \
                    and not (f.local_ty(a["place"]["local"]) or "&").startswith("&") \
                    and not is_guard_ty(f.local_ty(t["dest"]["local"]) or ""):
                out.add(b)
    return out


def is_guard_ty(ty):
    return any(x in ty for x in ("cell::Ref<", "cell::RefMut<", "cell::RefVal<", "Ref<'", "RefMut<'", "RefVal<'", "dyn std::ops::Deref"))


def longest_count(f, marked):
    """Maximum number of marked blocks on an acyclic path from entry (back edges ignored)."""
    back = set(f.back_edges())
    order = f.rpo()
    best = {0: (1 if 0 in marked else 0)}
    for b in order:
        if b not in best:
            continue
        for s in f.succs(b):
            if (b, s) in back:
                continue
            v = best[b] + (1 if s in marked else 0)
            if v > best.get(s, -1):
                best[s] = v
    return max(best.values()) if best else 0
