"""C10 — Numeric comparison is the mathematical order (structural part)."""
from . import mir, registry, interval, absint
from .interval import IV, En, TOP, Interp
from .mir import callee, callee_matches, Prov
from .ctx import where_of

EXPLANATION = (
    '(operator-table, chain) predicate tables by abstract interpretation: each of < <= > >= = applied to three '
    'opaque numbers with each vector of comparison outcomes performs the comparison its name denotes on adjacent '
    'pairs in order and returns their conjunction; max / min compare the running result with each argument by > / '
    '<, return the selected operand, taken from the promoted pair (one inexact argument makes the result '
    'inexact); (cross-mult) symbolic evaluation of eq / partial_cmp / exact_eqv on a/b and c/d with symbolic '
    "components: every boolean shortcut is explored both ways and each path's decisive comparison is checked "
    'against a*d ? c*b on all sign/order classes of numerators -2..2 and denominators 1..3 — sound given positive '
    'denominators (C09-denominator-sign) and absence of overflow (interval analysis re-run for these functions); '
    '(eqv) exact_eqv is false across exactness classes.')
NOT_DECIDED = "order laws on concrete values; behaviour of the real type's own comparison (NaN, -0.0)."

BASE = "interpreter::library::native::base::"
WANT = {"<": "lt", "<=": "le", ">": "gt", ">=": "ge", "=": "eq"}
CMP_METHODS = ("lt", "le", "gt", "ge", "eq", "ne")


def cmp_calls(f):
    out = []
    for b, t in f.calls():
        d = mir.callee_decl(t) or ""
        m = d.rsplit("::", 1)[-1]
        if m in CMP_METHODS and (d.startswith("std::cmp::PartialOrd::") or d.startswith("std::cmp::PartialEq::")):
            gens = " ".join((t.get("fn") or {}).get("generics", []))
            out.append((b, t, m, "values::Number" in gens))
    return out


def run(ctx):
    fb = ctx.fb()
    ctx.trust("rustc nightly MIR; registration table read from the success path of library_map_result")
    regs = {r["name"]: r for r in registry.read(fb)}

    # ------------------------------------------------------------------ C10-operator-table + C10-chain
    ctx.rule("C10-operator-table", "each numeric predicate uses the operator its name denotes")
    ctx.rule("C10-chain", "an n-ary comparison is the conjunction of its adjacent pairs")
    from . import numtables
    d_cmp = numtables.rule_compare(ctx, "C10-operator-table", "C10-chain")
    def _old_predicates():
        for name, meth in WANT.items():
            r = regs.get(name)
            if not r or not r["target"]:
                ctx.report("C10-operator-table", name, "builtin %r is not registered" % name)
                continue
            f = fb.by_path(r["target"])
            if f is None:
                ctx.report("C10-operator-table", name, "target of %r not found: %s" % (name, r["target"]))
                continue
            cc = [c for c in cmp_calls(f) if c[3]]
            ctx.inst("C10-operator-table", name, {"function": f.name.rsplit("::", 1)[-1], "comparisons": [c[2] for c in cc]})
            if len(cc) != 1:
                ctx.report("C10-operator-table", name, "%s: expected exactly one Number comparison, found %s" % (name, [c[2] for c in cc]), where_of(f))
                continue
            b, t, m, _ = cc[0]
            nb = f.blocks[t["target"]]["term"]
            if nb["k"] != "switch" or mir.op_local(nb["discr"]) != t["dest"]["local"]:
                ctx.report("C10-operator-table", name + "/branch", "the comparison result is not branched on", where_of(f, t))
                continue
            false_t = dict((v, bb) for v, bb in nb["targets"]).get(0)
            true_t = nb["otherwise"]

            def returns_bool(region, val):
                for bb, i, s, a, v in mir.aggregates(f, region):
                    if v == "Boolean" and a.endswith("values::Value") and mir.const_val(s["rv"]["ops"][0]) is val:
                        return True
                return False
            loops = f.loops()
            head, body = (loops[-1] if loops else (None, set()))
            # which outcome leaves with #f?
            f_reg, t_reg = mir.dominated_region(f, false_t), mir.dominated_region(f, true_t)
            fails_on_false = returns_bool(f_reg, False) and head in f.reachable(true_t)
            fails_on_true = returns_bool(t_reg, False) and head in f.reachable(false_t)
            eff = None
            if fails_on_false and not fails_on_true:
                eff = m
            elif fails_on_true and not fails_on_false:
                eff = {"lt": "ge", "le": "gt", "gt": "le", "ge": "lt", "eq": "ne", "ne": "eq"}[m]
            ctx.inst("C10-operator-table", name + "/effective", {"holds_when": eff})
            if eff != meth:
                ctx.report("C10-operator-table", name + "/operator", "%r continues while `%s` holds between neighbours (expected `%s`)" % (name, eff, meth), where_of(f, t))
            # ---- chain shape
            if not loops:
                ctx.report("C10-chain", name + "/loop", "no loop over the remaining arguments", where_of(f))
                continue
            p = Prov(f)
            L, C = t["args"][0], t["args"][1]
            lr, _ = mir.trace_access(f, L)
            cr, _ = mir.trace_access(f, C)
            # current derives from this iteration's next(); previous is re-assigned from current on the continue path
            nexts = [(bb, tt) for bb, tt in f.calls(body) if callee_matches(tt, "Iterator::next", "Iterator>::next")]
            cur_from_next = any(tt["dest"]["local"] in p.taint_reach(cr) for bb, tt in nexts) if cr is not None else False
            cont_t = true_t if eff == m else false_t
            cont_reg = mir.dominated_region(f, cont_t)
            advanced = False
            for bb, i, s in f.stmts(cont_reg):
                if s["k"] == "assign" and s["place"]["local"] == lr and not s["place"]["proj"]:
                    src = mir.op_local(s["rv"]["op"]) if s["rv"]["k"] == "use" else None
                    if src is not None and cr in p.reach_locals(src):
                        advanced = True
            # (previous, current) order
            first_items = [(bb, tt) for bb, tt in f.calls() if callee_matches(tt, "Iterator::next", "Iterator>::next") and bb not in body]
            prev_init = any(tt["dest"]["local"] in p.taint_reach(lr) for bb, tt in first_items) if lr is not None else False
            ctx.inst("C10-chain", name, {"current_from_iteration": cur_from_next, "previous_advanced": advanced, "previous_initialised_from_first": prev_init})
            if not cur_from_next or not prev_init:
                ctx.report("C10-chain", name + "/operands", "the comparison is not (previous argument, current argument)", where_of(f, t))
            if not advanced:
                ctx.report("C10-chain", name + "/advance", "after a successful comparison `previous` is not replaced by `current` "
                           "(every argument would be compared with the first)", where_of(f, t))
            # loop exit -> #t ; no arguments -> #t
            exit_true = False
            for bb, tt in nexts:
                sw = mir.result_switch_after(f, bb)
                if sw:
                    none_t = sw[1].get(0, sw[2])
                    if returns_bool(f.reachable(none_t) - body, True):
                        exit_true = True
            if not exit_true:
                ctx.report("C10-chain", name + "/exit", "when all pairs hold the predicate does not return #t", where_of(f))
            # every argument is type-checked
            if not any(callee_matches(tt, "Value::expect_number") for _, tt in f.calls(body)):
                ctx.report("C10-chain", name + "/type-check", "arguments in the loop are not checked with expect_number", where_of(f))
    ctx.guarded('C10-operator-table', d_cmp >= 20, _old_predicates)

    # max / min
    def _old_maxmin():
        for name, meth in (("max", "gt"), ("min", "lt")):
            r = regs.get(name)
            f = fb.by_path(r["target"]) if r and r["target"] else None
            if f is None:
                ctx.report("C10-operator-table", name, "builtin %r is not registered" % name)
                continue
            cl = [c for c in fb.closures_of(f) if cmp_calls(c)]
            if len(cl) != 1:
                ctx.report("C10-operator-table", name, "fold closure of %s not recognised" % name, where_of(f))
                continue
            c = cl[0]
            cc = [x for x in cmp_calls(c) if x[3]]
            pc = Prov(c)
            if len(cc) != 1:
                ctx.report("C10-operator-table", name, "%s: expected one comparison in the fold closure" % name, where_of(c))
                continue
            b, t, m, _ = cc[0]
            # operands: (accumulator = param 2, candidate = expect_number(param 3))
            a0 = pc.arg_roots(t["args"][0])
            a1c = {x for _, x in pc.call_roots(t["args"][1])}
            nb = c.blocks[t["target"]]["term"]
            false_t = dict((v, bb) for v, bb in nb["targets"]).get(0) if nb["k"] == "switch" else None
            true_t = nb["otherwise"] if nb["k"] == "switch" else None
            sel_true = [callee(tt).rsplit("::", 1)[-1] for _, tt in c.calls(mir.dominated_region(c, true_t))] if true_t is not None else []
            sel_false = [callee(tt).rsplit("::", 1)[-1] for _, tt in c.calls(mir.dominated_region(c, false_t))] if false_t is not None else []
            ctx.inst("C10-operator-table", name, {"comparison": m, "lhs_is_accumulator": a0 == {2}, "true_selects": sel_true, "false_selects": sel_false})
            ok = (m == meth and a0 == {2} and "values::Value::expect_number" in a1c)
            swapped = (m == {"gt": "lt", "lt": "gt"}[meth] and "values::Value::expect_number" in {x for _, x in pc.call_roots(t["args"][0])}
                       and pc.arg_roots(t["args"][1]) == {2})
            if not (ok or swapped):
                ctx.report("C10-operator-table", name + "/operator", "%s compares with `%s` (accumulator first: %s); expected `%s`" % (name, m, a0 == {2}, meth), where_of(c, t))
            # ------------------------------------------------------------ C10-maxmin-contagion
            ctx.rule("C10-maxmin-contagion", "max/min return the promoted operand (inexact if any argument is inexact)")
            ups = [(bb, tt) for bb, tt in c.calls() if callee(tt) == "values::upcast_oprands"]
            if len(ups) != 1:
                ctx.report("C10-maxmin-contagion", name + "/promote", "the operand pair is not promoted with upcast_oprands", where_of(c))
            else:
                agg = mir.trace_aggregate(c, ups[0][1]["args"][0])
                pair_ok = bool(agg) and pc.arg_roots(agg["ops"][0]) == {2} and "values::Value::expect_number" in {x for _, x in pc.call_roots(agg["ops"][1])}
                want_t, want_f = (["lhs"], ["rhs"]) if ok else (["rhs"], ["lhs"])
                res_roots = {x for _, x in pc.call_roots(0)}
                from_promoted = {"values::NumberBinaryOperand::lhs", "values::NumberBinaryOperand::rhs"} <= res_roots
                raw = pc.arg_roots(0) & {2, 3}
                ctx.inst("C10-maxmin-contagion", name, {"pair_is_(acc,candidate)": pair_ok, "result_from_promoted_pair": from_promoted})
                if not pair_ok or sel_true != want_t or sel_false != want_f:
                    ctx.report("C10-maxmin-contagion", name + "/selection", "%s does not select lhs()/rhs() of the promoted (accumulator, "
                               "candidate) pair consistently with its comparison (true: %s, false: %s)" % (name, sel_true, sel_false), where_of(c))
                # the result must come only from the promoted pair: no raw operand may be returned
                direct = [d for d in mir.defs_of(c).get(0, [])]
                for bb, i, s, a, v in mir.aggregates(c):
                    if v == "Ok" and s["place"]["local"] == 0:
                        rr = {x for _, x in pc.call_roots(s["rv"]["ops"][0])}
                        ar = pc.arg_roots(s["rv"]["ops"][0])
                        if not rr <= {"values::NumberBinaryOperand::lhs", "values::NumberBinaryOperand::rhs"} or (ar & {2, 3}) or not rr:
                            ctx.report("C10-maxmin-contagion", name + "/raw-operand", "%s can return an operand that was not promoted "
                                       "(roots %s, parameters %s)" % (name, sorted(rr), sorted(ar)), where_of(c))
    ctx.rule("C10-maxmin-contagion", "max/min return the promoted operand (inexact if any argument is inexact)")
    d_mm = numtables.rule_maxmin(ctx, "C10-operator-table", "C10-maxmin-contagion")
    # ... and with the comparisons answered from values given to the operands (ties in every position; `partial_cmp` as well as < >)
    numtables.rule_maxmin_values(ctx, "C10-operator-table", "C10-maxmin-contagion")
    numtables.rule_maxmin_grid(ctx, "C10-operator-table")
    ctx.guarded('C10-maxmin-contagion', d_mm >= 8, _old_maxmin)

    # lhs()/rhs() return the matching half of the promoted pair
    for nm, idxs in (("lhs", {"Integer": [0], "Real": [0], "Rational": [0, 1]}), ("rhs", {"Integer": [1], "Real": [1], "Rational": [2, 3]})):
        f = fb.find("values::NumberBinaryOperand::" + nm)
        vb = {n: i for i, n in fb.variants("values::NumberBinaryOperand")}
        for kind, want in idxs.items():
            it = Interp(fb)
            n_f = 4 if kind == "Rational" else 2
            res = it.run(f, [En(vb[kind], [IV(100 + k) for k in range(n_f)], kind)])
            outs = [r for r, s in res if isinstance(r, En)]
            got = [x.lo - 100 for x in outs[0].fields if isinstance(x, IV)] if outs else None
            gk = outs[0].name if outs else None
            ctx.inst("C10-maxmin-contagion", "%s/%s" % (nm, kind), {"kind": gk, "fields": got})
            if gk != kind or got != want:
                ctx.report("C10-maxmin-contagion", "%s/%s" % (nm, kind), "NumberBinaryOperand::%s on %s returns %s%s, expected fields %s" % (nm, kind, gk, got, want), where_of(f))

    # ------------------------------------------------------------------ C10-cross-mult
    ctx.rule("C10-kind-grid", "= and the order on every ordered pair of kinds {integer, ratio, real} with symbolic payloads: at every grid "
                              "point (integers -2..2, denominators 1..3, ten reals incl. -0.0, 0.0, the infinities, NaN) the selected path "
                              "answers with the mathematical order (exact operand facing an inexact one converted to binary32 first)")
    numtables.rule_kind_cmp(ctx, "C10-kind-grid")
    ctx.rule("C10-chain-grid", "(op a b c) = (op a b) and (op b c) on triples of every mix of kinds (quick: eight mixes with a real in first or "
                               "middle position) over values around 2^24 and 1/3, payloads symbolic, every test explored both ways: a "
                               "converted operand must not be carried into the next pair")
    numtables.rule_chain_grid(ctx, "C10-chain-grid")
    ctx.rule("C10-cross-mult", "ratios are compared by lhs.num*rhs.den against rhs.num*lhs.den, in that order")
    d_cross = numtables.rule_cross(ctx, "C10-cross-mult")
    ctx.guarded("C10-cross-mult", d_cross >= 3, lambda: cross_mult(ctx, fb))
    # the grids above take denominators positive: the comparison of a ratio stored with a negative denominator comes out inverted
    # (cross-multiplication is sign-naive).  That every ratio the arithmetic builds has a positive denominator is the sign analysis of
    # C09, re-run here because the order of computed ratios depends on it
    ctx.rule("C10-denominator-sign", "every ratio the arithmetic can build has a positive denominator — the precondition of comparing ratios "
                                     "by cross-multiplication (sign analysis of the ratio constructors, shared with C09)")
    from .ctx import Ctx as _Ctx10
    from . import c09 as _c09
    sub10 = _Ctx10("C09", ctx.tier, ctx.seed)
    sub10._fb = ctx._fb
    _c09.range_and_sign(sub10, fb)
    neg10 = [r for r in sub10.reports if r["rule"] == "C09-denominator-sign"]
    ctx.inst("C10-denominator-sign", "ratio-constructors", {"with_nonpositive_denominator": len(neg10)})
    ctx.oblige(not neg10)
    for r in neg10:
        ctx.report("C10-denominator-sign", "negative-denominator/" + r["key"].split("/", 1)[1], "a ratio with a non-positive denominator can be "
                   "built, and < > <= >= max min on it are inverted (ratios are compared by cross-multiplication, which assumes positive "
                   "denominators): " + r["msg"], r["where"])

    # ------------------------------------------------------------------ C10-eqv
    ctx.rule("C10-eqv", "eqv? on numbers is true only for the same exactness class")
    ee = fb.find("values::Number::exact_eqv")
    kinds = ["Integer", "Rational", "Real"]
    from .c09 import mk
    for a in kinds:
        for b in kinds:
            it = Interp(fb)
            res = it.run(ee, [mk(fb, a), mk(fb, b)])
            got = sorted({repr(r) for r, s in res})
            ctx.inst("C10-eqv", "exact_eqv/%s,%s" % (a, b), got)
            if a != b and got != ["False"]:
                ctx.report("C10-eqv", "exact_eqv/%s,%s" % (a, b), "exact_eqv(%s, %s) can be %s, expected always false" % (a, b, got), where_of(ee))
            if a == b and got == ["False"] or (a == b and got == ["True"]):
                ctx.report("C10-eqv", "exact_eqv/%s,%s" % (a, b), "exact_eqv(%s, %s) is the constant %s" % (a, b, got), where_of(ee))
    for nm in ("eqv?", "eq?"):
        r = regs.get(nm)
        f = fb.by_path(r["target"]) if r and r["target"] else None
        if f is None:
            ctx.report("C10-eqv", nm, "%s not registered" % nm)
            continue
        # the registered procedure on pairs of sample numbers of every kind (the answer table); the shape of its (Number, Number) arm
        # only as a fallback when the table decides nothing
        from . import evaltables as _et10
        try:
            n_rows = _et10.rule_eqv_numbers(ctx, "C10-eqv", nm, f)
        except (mir.AnchorMissing, absint.Stuck, absint.Loop) as e:
            ctx.undecided("C10-eqv", nm + "/table", "the answer table of %s could not be built: %s" % (nm, e), where_of(f))
            n_rows = 0

        def _arm_shape(f=f, nm=nm):
            uses = [(b, t) for b, t in f.calls() if callee(t) == ee.name]
            ctx.inst("C10-eqv", nm, {"target": f.name.rsplit("::", 1)[-1], "exact_eqv_calls": len(uses)})
            if len(uses) != 1:
                ctx.report("C10-eqv", nm + "/numbers", "%s does not compare numbers with exact_eqv" % nm, where_of(f))
            else:
                b, t = uses[0]
                r0, p0 = mir.trace_access(f, t["args"][0])
                r1, p1 = mir.trace_access(f, t["args"][1])
                if "Number" not in p0 or "Number" not in p1 or r0 == r1:
                    ctx.report("C10-eqv", nm + "/operands", "exact_eqv is not applied to the two Number payloads", where_of(f, t))
        ctx.guarded("C10-eqv", n_rows >= 40, _arm_shape)

    # preconditions of the cross multiplication (shared with C09): overflow-freedom below 2^15 and positive denominators
    ctx.rule("C10-cmp-range", "the products of the ratio comparison cannot overflow below 2^15 (interval proof); beyond: census")
    from .c09 import CMPS, R15
    for opn, path in sorted(CMPS.items()):
        f = fb.find(path)
        for da in (IV(1, R15),):
            it = Interp(fb)
            it.run(f, [mk(fb, "Rational", None, da), mk(fb, "Rational", None, da)])
            it.run(f, [mk(fb, "Integer"), mk(fb, "Rational", None, da)])
            bad = [o for o in it.obligations if o[2] in ("Overflow", "OverflowNeg") and not o[4]]
            n = len([o for o in it.obligations if o[2] in ("Overflow", "OverflowNeg")])
            ctx.inst("C10-cmp-range", opn, {"products": n, "can_overflow_below_2^15": len(bad)})
            for o in bad[:1]:
                ctx.report("C10-cmp-range", opn, "the cross product in %s can overflow for operands below 2^15" % opn, mir.span_loc(o[5]))
    from .c09 import full_range_failures
    from .c09 import sign_invariant_holds
    fails = full_range_failures(fb, CMPS, pos_den_only=sign_invariant_holds(fb))
    for opn in sorted(CMPS):
        ctx.inst("C10-never-wrong/%s" % opn, "full-range", {"failing": sorted(op for (fn, op) in fails if fn == CMPS[opn])})
    for (fn, op), info in sorted(fails.items()):
        opn = fn.rsplit("::", 1)[-1]
        ctx.report("C10-never-wrong/%s" % opn, op, "the comparison %s computes a product (%s) that can leave its integer type for "
                   "some i32 operands (case %s): it panics (checked build) or compares wrapped products (unchecked build)" % (
                       opn, op, info[0]), mir.span_loc(info[1]))
    ctx.rule("C10-never-wrong/eq", "census: bare i32 products in Number::eq")
    ctx.rule("C10-never-wrong/partial_cmp", "census: bare i32 products in Number::partial_cmp")
    ctx.rule("C10-never-wrong/exact_eqv", "census: bare i32 products in Number::exact_eqv")
    return EXPLANATION, NOT_DECIDED


def cross_mult(ctx, fb):
    spec = {
        "<values::Number as std::cmp::PartialEq>::eq": "operand",
        "<values::Number as std::cmp::PartialOrd>::partial_cmp": "operand",
        "values::Number::exact_eqv": "params",
    }
    for path, mode in spec.items():
        f = fb.find(path)
        short = path.rsplit("::", 1)[-1]
        prods = []
        # products: checked binops and `<&i32 as Mul>::mul` calls
        for b, i, s in f.stmts():
            if s["k"] == "assign" and s["rv"]["k"] == "binop" and s["rv"]["op"].startswith("Mul") and not f.blocks[b]["cleanup"]:
                prods.append((b, s["place"]["local"], s["rv"]["l"], s["rv"]["r"], s["span"]))
        for b, t in f.calls():
            if callee_matches(t, "std::ops::Mul>::mul") and any(x in " ".join(t.get("argtys", [])) for x in ("i32", "i64")):
                prods.append((b, t["dest"]["local"], t["args"][0], t["args"][1], t["span"]))
        if len(prods) != 2:
            ctx.report("C10-cross-mult", short + "/shape", "shape not recognised: %d products in the ratio arm (expected 2)" % len(prods), where_of(f))
            continue

        def role(o):
            root, path = mir.trace_access(f, o)
            path = [x for x in path if not isinstance(x, tuple)]
            if mode == "operand":
                # NumberBinaryOperand::Rational(lhs.num, lhs.den, rhs.num, rhs.den)
                if "Rational" in path and isinstance(path[-1], int):
                    return {0: ("lhs", "num"), 1: ("lhs", "den"), 2: ("rhs", "num"), 3: ("rhs", "den")}.get(path[-1])
            else:
                if "Rational" in path and isinstance(path[-1], int) and root is not None:
                    side = "lhs" if root == 1 else ("rhs" if root == 2 else None)
                    return (side, "num" if path[-1] == 0 else "den")
            return None
        roles = [(role(l), role(r)) for (_, _, l, r, _) in prods]
        ctx.inst("C10-cross-mult", short, {"products": [[list(x) if x else None for x in pr] for pr in roles]})
        want = [{("lhs", "num"), ("rhs", "den")}, {("rhs", "num"), ("lhs", "den")}]
        got = [set(pr) for pr in roles]
        if any(None in g for g in got):
            ctx.report("C10-cross-mult", short + "/shape", "factor provenance not recognised (%s)" % roles, where_of(f))
            continue
        if got == want:
            pass
        elif got == list(reversed(want)):
            # products built in the other order: acceptable only if they are also compared in the other order
            pass
        else:
            ctx.report("C10-cross-mult", short + "/pairing", "ratios are compared through the products %s, expected "
                       "lhs.num*rhs.den and rhs.num*lhs.den" % [sorted(g) for g in got], where_of(f))
            continue
        # comparison order: first comparand must be the product containing lhs.num
        cmpc = [(b, t) for b, t in f.calls() if (callee(t) or "").rsplit("::", 1)[-1] in ("partial_cmp", "eq", "cmp", "ne", "lt", "gt", "le", "ge")
                and any(x in " ".join(t.get("argtys", [])) for x in ("i32", "i64", "i128"))]
        ok_order = False
        p = Prov(f)
        for b, t in cmpc:
            l0 = mir.op_local(t["args"][0])
            l1 = mir.op_local(t["args"][1])
            if l0 is None or l1 is None:
                continue
            first = [k for k, pr in enumerate(prods) if pr[1] in p.reach_locals(l0)]
            second = [k for k, pr in enumerate(prods) if pr[1] in p.reach_locals(l1)]
            if len(first) == 1 and len(second) == 1 and first != second:
                if ("lhs", "num") in got[first[0]] and ("rhs", "num") in got[second[0]]:
                    ok_order = True
        if not cmpc:
            ctx.report("C10-cross-mult", short + "/compare", "the two products are not compared as i32 values", where_of(f))
        elif not ok_order and short == "partial_cmp":
            ctx.report("C10-cross-mult", short + "/order", "the ordering compares rhs.num*lhs.den against lhs.num*rhs.den (reversed "
                       "order)", where_of(f))
    # --- sibling cross-check (Engler-style contradiction rule): eq, partial_cmp and exact_eqv implement the same
    # comparison of two ratios; the comparisons that decide the result must be made on the same comparands in all of
    # them.  A shortcut taken by one sibling only (e.g. comparing raw denominators when the numerators are equal) is
    # reported: either the shortcut is wrong or the other siblings lack it.
    shapes = {}
    for path, mode in spec.items():
        f = fb.find(path)
        short = path.rsplit("::", 1)[-1]
        p = Prov(f)
        ridx = fb.variant_index("values::NumberBinaryOperand", "Rational") if mode == "operand" else None
        region = None
        if mode == "operand":
            sw = next(iter(mir.discriminant_switches(f, "NumberBinaryOperand")), None)
            region = mir.dominated_region(f, sw[3].get(ridx, sw[4])) if sw else set()
        else:
            # arm where both are Rational: blocks that read a Rational downcast
            region = {b for b, i, st in f.stmts() if any(any(e.get("variant") == "Rational" for e in pl["proj"]) for pl in mir.rv_places(st["rv"]))}
            region = set().union(*[f.reachable(b) for b in region]) if region else set()
        cmps = set()
        for b, t in f.calls(region):
            m = (callee(t) or "").rsplit("::", 1)[-1]
            if m not in ("partial_cmp", "eq", "cmp", "ne", "lt", "gt", "le", "ge"):
                continue
            if not any(x in " ".join(t.get("argtys", [])) for x in ("i32", "i64")):
                continue
            sides = []
            for a in t["args"][:2]:
                l = mir.op_local(a)
                reach = p.reach_locals(l) if l is not None else set()
                # which ratio components flow into this comparand?
                comps = set()
                for bb, ii, st in f.stmts():
                    if st["k"] == "assign" and st["place"]["local"] in reach:
                        for pl in mir.rv_places(st["rv"]):
                            if any(e.get("variant") == "Rational" for e in pl["proj"]):
                                idx = [e["i"] for e in pl["proj"] if e["k"] == "field"]
                                root, pth = mir.trace_access(f, {"k": "copy", "place": pl})
                                if mode == "operand":
                                    comps.add({0: "lhs.num", 1: "lhs.den", 2: "rhs.num", 3: "rhs.den"}.get(idx[-1] if idx else -1, "?"))
                                else:
                                    side = "lhs" if root == 1 else "rhs"
                                    comps.add("%s.%s" % (side, "num" if (idx[-1] if idx else 0) == 0 else "den"))
                sides.append(frozenset(comps))
            cmps.add(frozenset(sides))
        shapes[short] = cmps
    ref = shapes.get("eq", set())
    ctx.inst("C10-cross-mult", "siblings", {k: sorted(sorted(sorted(x) for x in c) for c in v) for k, v in shapes.items()})
    for short in ("partial_cmp", "exact_eqv"):
        extra_c = shapes.get(short, set()) - ref
        for c in sorted(extra_c, key=lambda c: sorted(map(sorted, c))):
            desc = " against ".join("*".join(sorted(x)) for x in c)
            ctx.report("C10-cross-mult", "%s/sibling-shortcut/%s" % (short, desc.replace(" ", "_")),
                       "%s decides some ratio comparisons by comparing %s, which `=` (eq) never does: the siblings disagree on how two "
                       "ratios are compared (a shortcut that is only valid for some signs?)" % (short, desc), where_of(fb.find(
                           "<values::Number as std::cmp::PartialOrd>::partial_cmp" if short == "partial_cmp" else "values::Number::exact_eqv")))
    ctx.floor("C10-cross-mult", 3)
