"""C18 — A REPL session equals evaluating its forms in sequence (structural part)."""
from . import mir
from .mir import callee, callee_matches, Prov
from .ctx import where_of

EXPLANATION = (
    '(agreement) completeness table: for 36 texts (strings, characters, |identifiers|, comments, nested and '
    "unbalanced brackets) the REPL's completeness test agrees with the reader's own tokens / errors on the same "
    'text; (session) scripted session table by abstract interpretation of the REPL loop with the line source and '
    'interpreter stubbed: `(define x` / ` 1)` / `x` / empty / `(car` / `5)` error / `y` / void — which texts are '
    'submitted, the buffer is cleared after every submission on both outcomes, values go to stdout, errors to '
    'stderr, void and Ok(None) print nothing, one interpreter for the whole session; (last-value) eval returns '
    'the value of the last form of a submission. (earlier-forms, last-value) flow table of Interpreter::eval: '
    'forms before a failing one are evaluated before it is read or tokenized; the value of the last form; a '
    'scripted line ending in a blank that belongs to a token is submitted untrimmed.')
NOT_DECIDED = "transcript equality for every line splitting; behaviour of the line editor."


def run(ctx):
    fb = ctx.fb()
    ctx.trust("rustc nightly MIR; lexer contexts are taken from the lexer's own scanners")
    cbc = fb.find("repl::check_bracket_closed")
    rwi = fb.find("repl::run_with_interpreter")

    # ------------------------------------------------------------------ C18-last-value
    ctx.rule("C18-definitions-intact", "a submission — successful or failing at read or evaluation time — leaves the interpreter with the "
                                       "environment and the syntax environment it had (earlier definitions and macros stay): flow table of eval")
    ctx.rule("C18-last-value", "what a submission shows is the value of its last form (nothing for a definition): "
                               "Interpreter::eval returns the last form's result, not an earlier one")
    ctx.rule("C18-earlier-forms", "the forms of a submission before a failing one are evaluated (their definitions stay): each form is "
                                  "evaluated before the next is read, a failure stops the submission there")
    from . import c17, maintables
    d_lv = maintables.rule_eval_flow(ctx, {"last-value": "C18-last-value", "incremental": "C18-earlier-forms", "stop-at-first": "C18-earlier-forms",
                                            "state-kept": "C18-definitions-intact"})
    ctx.guarded("C18-last-value", d_lv, lambda: c17.last_value_rule(ctx, fb, "C18-last-value"))
    # "nothing for a definition": the statement evaluator yields no value for (define x E) — also when x is bound already (a
    # redefinition in a later submission, of a name of the standard library) — and binds x once
    from . import evaltables as _et18
    _et18.rule_definition_statement(ctx, "C18-last-value")

    # ------------------------------------------------------------------ C18-line-splits
    # "the transcript is the same however a form is split across lines": a line break is whitespace like a blank — the crate's own
    # lexer yields the same tokens for a form whether its tokens are separated by a blank, a newline, CR LF, or a newline and
    # indentation (pairs with their dot at a line end or a line start, vectors, quotes, strings next to a break)
    ctx.rule("C18-line-splits", "the lexer yields the same tokens for a form however its tokens are spread over lines (blank / LF / CR LF / "
                                "LF + indentation between any two tokens of twelve forms, dotted pairs and parameter lists with a rest "
                                "among them)")
    from . import lexrun as _lr18
    forms18 = [["(", "a", ".", "b", ")"], ["(", "define", "(", "g", "a", ".", "rest", ")", "rest", ")"], ["'", "(", "1", ".", "2", ")"],
               ["#(", "1", "2", ")"], ["(", "f", '"s t"', "#\\a", ")"], ["(", "a", "b", ".", "(", "c", ")", ")"], ["(", "+", "1", "-2", ".5e1", ")"],
               ["(", "quote", "...", ")"], ["(", "if", "#t", "1", "2", ")"], ["(", "x", ".", "#(", "1", ")", ")"], ["(", "-", "a", ")"],
               ["(", "let", "(", "(", "x", "1", ")", ")", "x", ")"]]
    n18 = 0
    for toks18 in forms18:
        base_text = " ".join(toks18).replace("' ", "'")
        base = _lr18.lex(fb, base_text + " ", max_tokens=40)
        if base and base[-1][0] in ("stuck", "panic"):
            ctx.undecided("C18-line-splits", base_text, "cannot follow the lexer on %r (%s)" % (base_text, base[-1][1]))
            continue
        want18 = [(k, pl) for k, pl, *_ in base]
        for sep_name, sep in (("LF", "\n"), ("CRLF", "\r\n"), ("LF+indent", "\n    ")):
            bad18 = None
            for cut in range(1, len(toks18)):
                if toks18[cut - 1] == "'":
                    continue
                text = " ".join(toks18[:cut]).replace("' ", "'") + sep + " ".join(toks18[cut:]).replace("' ", "'")
                got = _lr18.lex(fb, text + "\n", max_tokens=40)
                if got and got[-1][0] in ("stuck", "panic"):
                    bad18 = ("undecided", text, got[-1][1])
                    break
                if [(k, pl) for k, pl, *_ in got] != want18:
                    bad18 = ("differs", text, [(k, pl) for k, pl, *_ in got])
                    break
            n18 += 1
            key18 = "%s/%s" % (base_text, sep_name)
            if bad18 and bad18[0] == "undecided":
                ctx.undecided("C18-line-splits", key18, "cannot follow the lexer on %r (%s)" % (bad18[1], bad18[2]))
                continue
            ctx.inst("C18-line-splits", key18, {"same_tokens_at_every_split": bad18 is None})
            ctx.oblige(bad18 is None)
            if bad18:
                ctx.report("C18-line-splits", key18, "%r split as %r is read as %s, on one line as %s: the same form means something else when a "
                           "line break falls there" % (base_text, bad18[1], bad18[2], want18), where_of(fb.find("<parser::lexer::Lexer as std::iter::Iterator>::next")))

    # ------------------------------------------------------------------ C18-agreement
    ctx.rule("C18-agreement", "the completeness test agrees with the reader about which parentheses count")
    from . import repltables
    d_agree = repltables.rule_agreement(ctx, "C18-agreement")

    def _old_agreement():
        g = fb.call_graph("lib")
        reach = fb.reachable_from([cbc.name], graph=g)
        uses_lexer = any(n.startswith("parser::lexer::Lexer::") or n == "<parser::lexer::Lexer as std::iter::Iterator>::next" for n in reach) or \
            any(callee_matches(t, "parser::lexer::Lexer::from_char_stream") for _, t in cbc.calls())
        ctx.inst("C18-agreement", "defined-over-tokens", uses_lexer)
        if uses_lexer:
            # the counter moves exactly on the list-opening / list-closing token kinds
            tv = {n: i for i, n in fb.variants("parser::lexer::TokenData")}
            sw = [x for x in mir.discriminant_switches(cbc, "TokenData")]
            if not sw:
                ctx.report("C18-agreement", "token-dispatch", "the token kind is not dispatched on", where_of(cbc))
            else:
                sb, place, adt, targets, other = sw[0]
                moves = {}
                for name, i in tv.items():
                    tgt = targets.get(i, other)
                    # straight-line effect on the counter until the loop head
                    delta = 0
                    b = tgt
                    seen = set()
                    while b not in seen:
                        seen.add(b)
                        for s in cbc.blocks[b]["stmts"]:
                            if s["k"] == "assign" and s["rv"]["k"] == "binop" and s["rv"]["op"] in ("AddWithOverflow", "Add", "SubWithOverflow", "Sub"):
                                c = mir.const_int(s["rv"]["r"])
                                if c is not None:
                                    delta += c if s["rv"]["op"].startswith("Add") else -c
                        succ = cbc.succs(b)
                        if len(succ) != 1:
                            break
                        b = succ[0]
                    moves[name] = delta
                want = {n: 0 for n in tv}
                want.update({"LeftParen": 1, "VecConsIntro": 1, "ByteVecConsIntro": 1, "RightParen": -1})
                ctx.inst("C18-agreement", "counter-moves", {k: v for k, v in moves.items() if v})
                for n in tv:
                    if moves.get(n) != want[n]:
                        ctx.report("C18-agreement", "token/" + n, "the completeness counter moves by %s on a %s token, expected %s" % (
                            moves.get(n), n, want[n]), where_of(cbc))
            # lexical errors: unterminated string / identifier wait, others submit (no constant verdict)
            errs = [v for _, _, _, _, v in mir.aggregates(cbc)]
        else:
            # character scanner: needs a state per lexer context that swallows parentheses
            consts = set()
            for b, blk in enumerate(cbc.blocks):
                t = blk["term"]
                if t["k"] == "switch" and t.get("dty") == "char":
                    consts |= {v for v, _ in t["targets"]}
            contexts = {"string": ord('"'), "quoted identifier": ord("|"), "comment": ord(";"), "character literal": ord("\\")}
            # contexts derived from the lexer: scanners that consume arbitrary characters in a loop
            lex_ctx = []
            for name, sc in (("string", "string"), ("quoted identifier", "quoted_identifier"), ("comment", "comment")):
                f = fb.find("parser::lexer::Lexer::" + sc)
                if f.loop_blocks() and any(callee_matches(t, "Lexer::advance") for _, t in f.calls()):
                    lex_ctx.append(name)
            lex_ctx.append("character literal")
            ctx.inst("C18-agreement", "char-scanner", {"tested_characters": sorted(chr(c) for c in consts if c < 128), "lexer_contexts": lex_ctx})
            for name in lex_ctx:
                if contexts[name] not in consts:
                    ctx.report("C18-agreement", "context/" + name.replace(" ", "-"),
                               "the completeness test counts parentheses character by character but has no state for the %s context of "
                               "the lexer: a parenthesis inside a %s is counted, so e.g. (display \"(\") is never submitted" % (name, name),
                               where_of(cbc))
        # verdict: complete iff the count is not positive
        rets = []
        for b, i, s in cbc.stmts():
            if s["k"] == "assign" and s["place"]["local"] == 0 and s["rv"]["k"] == "binop":
                rets.append((s["rv"]["op"], mir.const_int(s["rv"]["r"]), mir.const_int(s["rv"]["l"])))
        ctx.inst("C18-agreement", "verdict", rets)
        # `count == 0` would never submit a text with a surplus `)`; `count <= 0` submits it and lets the reader report it
        if not any((op == "Le" and c == 0) or (op == "Lt" and c == 1) or (op == "Ge" and l == 0) or (op == "Gt" and l == 1) for op, c, l in rets):
            ctx.report("C18-agreement", "verdict", "the completeness verdict is %s, expected `count <= 0`" % rets, where_of(cbc))

    ctx.guarded("C18-agreement", d_agree >= 30, _old_agreement)

    # ------------------------------------------------------------------ C18-buffer
    ctx.rule("C18-buffer", "lines accumulate until complete; the buffer is cleared after every evaluation")
    ctx.rule("C18-print", "definitions and unspecified values print nothing; values go to stdout, errors to stderr; the loop continues")
    ctx.rule("C18-one-interpreter", "the session keeps its definitions: one interpreter for the whole loop")
    d_sess = repltables.rule_session(ctx, "C18-buffer", "C18-print", "C18-one-interpreter")

    def _old_buffer():
        p = Prov(rwi)
        loops = rwi.loops()
        if not loops:
            ctx.report("C18-buffer", "loop", "run_with_interpreter has no loop", where_of(rwi))
            return EXPLANATION, NOT_DECIDED
        head, body = max(loops, key=lambda hb: len(hb[1]))
        chk = [(b, t) for b, t in rwi.calls() if callee(t) == cbc.name]
        evs = [(b, t) for b, t in rwi.calls() if callee_matches(t, "interpreter::interpreter::Interpreter::eval")]
        if len(chk) != 1 or len(evs) != 1:
            ctx.report("C18-buffer", "shape", "expected one completeness test and one eval in the loop (found %d, %d)" % (len(chk), len(evs)), where_of(rwi))
            return EXPLANATION, NOT_DECIDED
        cb, ct = chk[0]
        eb, et = evs[0]
        nb = rwi.blocks[ct["target"]]["term"]
        true_t = nb["otherwise"] if nb["k"] == "switch" else None
        false_t = dict((v, bb) for v, bb in nb["targets"]).get(0) if nb["k"] == "switch" else None
        # the buffer local: receiver of push_str fed by the line
        pushes = [(b, t) for b, t in rwi.calls() if callee_matches(t, "String::push_str")]
        buf = mir.trace_access(rwi, pushes[0][1]["args"][0])[0] if pushes else None
        def is_buf(o):
            return buf is not None and mir.trace_access(rwi, o)[0] == buf
        dom = rwi.dominators()
        ok_complete = true_t is not None and true_t in dom[eb] and eb not in rwi.reachable(false_t) - {x for x in rwi.reachable(head)} if false_t is not None else False
        # evaluation only on the complete edge
        eval_on_incomplete = false_t is not None and mir.paths_avoiding(rwi, false_t, [eb], [head]) is not None
        ctx.inst("C18-buffer", "eval-gated", {"eval_dominated_by_complete_edge": true_t in dom[eb] if true_t is not None else False,
                                              "eval_reachable_from_incomplete_edge": eval_on_incomplete})
        if true_t is None or true_t not in dom[eb] or eval_on_incomplete:
            ctx.report("C18-buffer", "eval-gated", "the buffer is evaluated although the completeness test did not succeed", where_of(rwi, et))
        # both the test and eval read the accumulated buffer
        for lab, t in (("test", ct), ("eval", et)):
            arg = t["args"][-1]
            tl = p.taint_reach(mir.op_local(arg))
            if buf not in tl:
                ctx.report("C18-buffer", lab + "-input", "the %s is not fed from the accumulated buffer" % lab, where_of(rwi, t))
        # clear after eval on both outcomes: every path from eval back to the loop head passes String::clear(buffer)
        clears = [b for b, t in rwi.calls() if callee_matches(t, "String::clear") and is_buf(t["args"][0])]
        wit = mir.paths_avoiding(rwi, et["target"], [head], clears)
        ctx.inst("C18-buffer", "clear-after-eval", {"clear_blocks": clears, "path_without_clear": wit})
        if wit is not None:
            ctx.report("C18-buffer", "not-cleared", "after an evaluation the loop can continue without clearing the buffer (blocks %s): "
                       "the next submission would contain the previous text" % wit, where_of(rwi, et))
        # incomplete edge: a newline is appended, nothing is cleared
        if false_t is not None:
            reg = {b for b in rwi.reachable(false_t) if b in body} - rwi.reachable(true_t) if true_t is not None else set()
            path = mir.paths_avoiding(rwi, false_t, [head], [])
            pushes_nl = [t for b, t in rwi.calls(path or []) if callee_matches(t, "String::push") and is_buf(t["args"][0]) and mir.const_val(t["args"][1]) == "\n"]
            cleared = [b for b in (path or []) if b in clears]
            ctx.inst("C18-buffer", "incomplete-edge", {"appends_newline": bool(pushes_nl), "clears": bool(cleared)})
            if not pushes_nl or cleared:
                ctx.report("C18-buffer", "incomplete-edge", "an incomplete line must append a newline and keep the buffer", where_of(rwi))
        # the line read is appended before the test
        if not pushes or pushes[0][0] not in dom[cb]:
            ctx.report("C18-buffer", "append", "the line read is not appended to the buffer before the completeness test", where_of(rwi))
        # interrupt clears
        rl = fb.adts.get("rustyline::error::ReadlineError")
        interrupted_clears = False
        for sb, place, adt, targets, other in mir.discriminant_switches(rwi):
            if adt.endswith("ReadlineError"):
                for v, tgt in targets.items():
                    reg = mir.dominated_region(rwi, tgt)
                    if any(b in clears for b in reg) and head in rwi.reachable(tgt):
                        interrupted_clears = True
        ctx.inst("C18-buffer", "interrupt-clears", interrupted_clears)
        if not interrupted_clears:
            ctx.report("C18-buffer", "interrupt", "no read-error arm clears the buffer and continues (Ctrl-C would keep a partial form)", where_of(rwi))

    ctx.guarded("C18-buffer", d_sess >= 1, _old_buffer)

    # ------------------------------------------------------------------ C18-print
    ctx.rule("C18-print", "definitions and unspecified values print nothing; values go to stdout, errors to stderr; the loop continues")

    def _old_print():
        esw = mir.result_switch_after(rwi, eb)
        if not esw:
            ctx.report("C18-print", "match", "the result of eval is not matched", where_of(rwi, et))
        else:
            ok_t, err_t = esw[1].get(0, esw[2]), esw[1].get(1, esw[2])
            ok_reg, err_reg = mir.dominated_region(rwi, ok_t), mir.dominated_region(rwi, err_t)
            e_prints = [callee(t) for _, t in rwi.calls(err_reg) if callee_matches(t, "std::io::_eprint", "std::io::_print")]
            ctx.inst("C18-print", "error-arm", e_prints)
            if e_prints != ["std::io::_eprint"]:
                ctx.report("C18-print", "error-arm", "an evaluation error is reported through %s, expected one eprint" % e_prints, where_of(rwi))
            if head not in rwi.reachable(err_t):
                ctx.report("C18-print", "error-continues", "after an error the session does not continue", where_of(rwi))
            # the error printed is the Err payload
            for b, t in rwi.calls(err_reg):
                if callee_matches(t, "std::io::_eprint"):
                    fc = [x for x in mir.format_calls(rwi, err_reg)]
                    if not fc or not fc[0][4] or "Err" not in mir.trace_access(rwi, fc[0][4][0])[1]:
                        ctx.report("C18-print", "error-payload", "the message printed is not the evaluation error", where_of(rwi, t))
            # Ok arm: Option discriminant: None -> no print; Some(Void) -> no print; Some(other) -> one println of the value
            osw = [x for x in mir.discriminant_switches(rwi) if x[0] in ok_reg]
            vidx = fb.variant_index("values::Value", "Void")
            prints_by = {}
            none_prints = void_prints = value_prints = None
            for sb, place, adt, targets, other in osw:
                if adt.endswith("option::Option"):
                    none_t = targets.get(0, other)
                    none_prints = [callee(t) for _, t in rwi.calls(mir.dominated_region(rwi, none_t)) if callee_matches(t, "std::io::_print", "std::io::_eprint")]
                if adt.endswith("values::Value"):
                    vt = targets.get(vidx)
                    ot = other
                    if vt is not None:
                        void_prints = [callee(t) for _, t in rwi.calls(mir.dominated_region(rwi, vt)) if callee_matches(t, "std::io::_print", "std::io::_eprint")]
                        value_prints = [callee(t) for _, t in rwi.calls(mir.dominated_region(rwi, ot)) if callee_matches(t, "std::io::_print", "std::io::_eprint")]
            ctx.inst("C18-print", "ok-arm", {"none": none_prints, "void": void_prints, "value": value_prints})
            if none_prints != [] or void_prints != [] or value_prints != ["std::io::_print"]:
                ctx.report("C18-print", "ok-arm", "printing of results is none=%s void=%s value=%s; expected nothing, nothing, one println" % (
                    none_prints, void_prints, value_prints), where_of(rwi))
            else:
                fcs = [x for x in mir.format_calls(rwi, ok_reg) if x[2] is not None]
                good = any([p_ for p_ in x[2] if isinstance(p_, str)] == ["\n"] and x[3] == ["display"] for x in fcs)
                if not good:
                    ctx.report("C18-print", "value-format", "the value is not printed with Display followed by a newline", where_of(rwi))
            if head not in rwi.reachable(ok_t):
                ctx.report("C18-print", "ok-continues", "after a result the session does not continue", where_of(rwi))

    ctx.guarded("C18-print", d_sess >= 1, _old_print)

    # ------------------------------------------------------------------ C18-one-interpreter
    ctx.rule("C18-one-interpreter", "the session keeps its definitions: one interpreter for the whole loop")
    run = fb.find("repl::run")
    cs = [callee(t) for _, t in run.calls()]
    if "interpreter::interpreter::Interpreter::new_with_stdlib" not in cs or rwi.name not in cs:
        ctx.report("C18-one-interpreter", "run", "repl::run does not create one interpreter and start the session with it", where_of(run))
    # ------------------------------------------------------------------ C18-position-free
    ctx.rule("C18-position-free", "what a submission prints does not depend on where in the submission's text a sub-form sits: the printed "
                                  "text of a procedure value is the same at every line / column (necessary for `the transcript is the same "
                                  "however a form is split across lines`)")
    from . import printtables as _pt18
    _pt18.rule_position_free(ctx, "C18-position-free")
    _pt18.rule_messages_position_free(ctx, "C18-position-free")
    return EXPLANATION, NOT_DECIDED
