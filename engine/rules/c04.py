"""C04 — syntax-rules expansion selects the first matching rule and fills its template (structural part)."""
from . import mir, absint
from .mir import callee, callee_matches, Prov
from .ctx import where_of

EXPLANATION = (
    '(first-match, no-match-error) rule-selection table of UserDefinedTransformer::transform by abstract '
    'interpretation: three opaque rules x all eight match-outcome vectors — rules are tried in textual order up '
    "to the first match, the matching rule's own template is filled from the substitution map its own pattern was "
    'matched into (a fresh map per rule), no match => Err(MacroMissMatch); (kind-table) the complete (pattern '
    'kind x datum kind) decision table of match_datum: `_`/`...` match anything, list and vector patterns defer '
    'to match_datum_stream on data of the same kind and fail otherwise, identifiers consult the literal set, a '
    'literal datum pattern matches only data of the same kind and its verdict depends on both payloads; '
    '(template-total) every template variant is handled and identifiers consult the substitution table first; '
    '(reexpand) a macro use is looked up before being treated as a call and its expansion is parsed again; '
    '(keywords) the core keyword table. (expansion) sixteen rule sets of the supported class (pattern variables, '
    '_, literal identifiers and data, sub-lists, vectors, a final ellipsis incl. list sub-patterns under it, '
    "ellipsis sub-templates) are parsed by the crate's own transform_transformer and applied by "
    'UserDefinedTransformer::transform, both followed through their MIR, to uses of 0..3 items (atoms, lists, '
    "vectors, dotted forms): expansion or `no rule matches` as the statement's matching / instantiation relation "
    'gives.')
NOT_DECIDED = ("the matching relation of match_datum_stream (a backtracking ellipsis matcher) over all pattern/input "
               "shapes, and the exact expansion text.")

MD = "parser::macros::<impl error::Located<parser::macros::SyntaxPatternBody>>::match_datum"
SUB = "parser::macros::<impl error::Located<parser::macros::SyntaxTemplateBody>>::substitude"
SUBE = "parser::macros::<impl error::Located<parser::macros::SyntaxTemplateBody>>::substitude_ellipsis_item"


def run(ctx):
    fb = ctx.fb()
    ctx.trust("rustc nightly MIR; decision tables by abstract evaluation of loop-free arms (absint.py)")
    tr = fb.find("parser::macros::UserDefinedTransformer::transform")
    md = fb.find(MD)
    mds = fb.find(MD + "_stream")

    # ------------------------------------------------------------------ C04-first-match
    ctx.rule("C04-first-match", "rules are tried in textual order and the first match wins")
    from . import macrotables
    ctx.rule("C04-no-match-error", "a use that matches no rule is a syntax error")
    d_first = macrotables.rule_first_match(ctx, "C04-first-match", "C04-no-match-error")
    def _old_first():
        p = Prov(tr)
        its = [(b, t) for b, t in tr.calls() if callee_matches(t, "IntoIterator>::into_iter", "<impl [T]>::iter")]
        reorder = [callee(t) for _, t in tr.calls() if callee_matches(
            t, "Iterator::rev", "<impl [T]>::sort", "<impl [T]>::sort_by", "Iterator::filter", "Iterator::skip", "Iterator::enumerate",
            "<impl [T]>::reverse", "Iterator::last", "Iterator::max_by", "Iterator::min_by", "<impl [T]>::sort_by_key",
            "Iterator::step_by", "Iterator::rfind", "Iterator::rposition", "<impl [T]>::iter_mut", "DoubleEndedIterator::next_back",
            "Iterator::filter_map", "Iterator::find_map", "Iterator::find", "Iterator::position")]
        if len(its) != 1:
            ctx.report("C04-first-match", "iteration", "expected one iteration over the rules, found %d" % len(its), where_of(tr))
        else:
            src = mir.trace_place(tr, its[0][1]["args"][0])[0]
            ctx.inst("C04-first-match", "iteration", {"over": src, "iterator": callee(its[0][1])})
            if not src.endswith(".rules"):
                ctx.report("C04-first-match", "iteration/source", "the loop iterates %s, not self.rules" % src, where_of(tr, its[0][1]))
            if callee(its[0][1]) != "<&std::vec::Vec as std::iter::IntoIterator>::into_iter" and not callee_matches(its[0][1], "<impl [T]>::iter"):
                ctx.report("C04-first-match", "iteration/kind", "rules are iterated with %s" % callee(its[0][1]), where_of(tr, its[0][1]))
        if reorder:
            ctx.report("C04-first-match", "reordered", "rule order is altered / selected by %s" % reorder, where_of(tr))
        nexts = [(b, t) for b, t in tr.calls() if callee_matches(t, "Iterator>::next")]
        mcalls = [(b, t) for b, t in tr.calls() if callee(t) == md.name]
        scalls = [(b, t) for b, t in tr.calls() if callee(t) == SUB]
        loops = tr.loops()
        if len(nexts) != 1 or len(mcalls) != 1 or len(scalls) != 1 or not loops:
            ctx.report("C04-first-match", "shape", "transform: shape not recognised (next=%d match_datum=%d substitude=%d loops=%d)" % (
                len(nexts), len(mcalls), len(scalls), len(loops)), where_of(tr))
        else:
            head, body = loops[0]
            mb, mt = mcalls[0]
            sbk, st = scalls[0]
            # pattern = item.0, template = item.1 of the same `next()` item; datum = parameter 3; literals = self.literals
            pr, ppath = mir.trace_access(tr, mt["args"][0])
            tr_, tpath = mir.trace_access(tr, st["args"][0])
            ctx.inst("C04-first-match", "rule-components", {"pattern": ppath, "template": tpath})
            if ppath[-3:] != ["Some", 0, 0] or tpath[-3:] != ["Some", 0, 1] or pr != tr_:
                ctx.report("C04-first-match", "components", "pattern/template are not .0/.1 of the current rule (%s / %s)" % (ppath, tpath), where_of(tr))
            if p.arg_roots(mt["args"][1]) != {3}:
                ctx.report("C04-first-match", "datum", "the matcher is not given the macro use", where_of(tr, mt))
            lit = mir.trace_place(tr, mt["args"][3])[0]
            if not lit.endswith(".literals"):
                ctx.report("C04-first-match", "literals", "the matcher is not given self.literals (%s)" % lit, where_of(tr, mt))
            # substitutions: fresh HashMap::new() inside the loop, same map for match and substitution
            m_map = {c for _, c in p.call_roots(mt["args"][4])}
            s_map = {c for _, c in p.call_roots(st["args"][1])}
            newb = [b for b, t in tr.calls() if callee_matches(t, "std::collections::HashMap::new")]
            ctx.inst("C04-first-match", "substitution-map", {"match": sorted(m_map), "substitute": sorted(s_map), "fresh_in_loop": all(b in body for b in newb)})
            if m_map != {"std::collections::HashMap::new"} or s_map != m_map or not newb or any(b not in body for b in newb):
                ctx.report("C04-first-match", "substitutions", "each rule must be matched into a fresh substitution map that is then "
                           "used for its template", where_of(tr))
            # success edge: the bool payload of match_datum's Ok -> true target must not return to the loop head
            succ_t = fail_t = None
            for b in tr.reachable(mt["target"]):
                term = tr.blocks[b]["term"]
                if term["k"] == "switch" and term["targets"] and term["targets"][0][0] == 0 and len(term["targets"]) == 1:
                    dl = mir.op_local(term["discr"])
                    if dl is not None and tr.local_ty(dl) == "bool" and ("call", mb, md.name) in p.roots(dl):
                        succ_t, fail_t = term["otherwise"], term["targets"][0][1]
                        break
            if succ_t is None:
                ctx.report("C04-first-match", "success-edge", "the result of match_datum is not branched on", where_of(tr, mt))
            else:
                back = head in tr.reachable(succ_t)
                fail_back = head in tr.reachable(fail_t)
                ctx.inst("C04-first-match", "success-edge", {"success_continues_loop": back, "failure_continues_loop": fail_back})
                if back:
                    ctx.report("C04-first-match", "success-continues", "after a rule matches the loop continues (a later rule can win)", where_of(tr))
                if not fail_back:
                    ctx.report("C04-first-match", "failure-stops", "after a rule fails the remaining rules are not tried", where_of(tr))
                if sbk not in mir.dominated_region(tr, succ_t):
                    ctx.report("C04-first-match", "substitute-on-success", "the template is not substituted on the success edge", where_of(tr, st))
                # result: Ok(popped single datum) derives from substitude
                okb = [(b, s) for b, i, s, a, v in mir.aggregates(tr, mir.dominated_region(tr, succ_t)) if v == "Ok" and s["place"]["local"] == 0]
                for b, s in okb:
                    if SUB not in p.taint_calls(mir.op_local(s["rv"]["ops"][0])):
                        ctx.report("C04-first-match", "result", "the expansion returned is not the substituted template", where_of(tr))
                if not okb:
                    ctx.report("C04-first-match", "result", "no Ok result on the success edge", where_of(tr))

            # -------------------------------------------------------------- C04-no-match-error
            ctx.rule("C04-no-match-error", "a use that matches no rule is a syntax error")
            nsw = mir.result_switch_after(tr, nexts[0][0])
            none_t = nsw[1].get(0, nsw[2]) if nsw else None
            if none_t is None:
                ctx.report("C04-no-match-error", "loop-exit", "loop exit not recognised", where_of(tr))
            else:
                reg = tr.reachable(none_t) - body
                mm = any(v == "MacroMissMatch" for _, _, _, _, v in mir.aggregates(tr, reg))
                oks = [1 for b, i, s, a, v in mir.aggregates(tr, reg) if v == "Ok" and s["place"]["local"] == 0]
                ctx.inst("C04-no-match-error", "loop-exit", {"MacroMissMatch": mm, "builds_ok": bool(oks)})
                if not mm or oks:
                    ctx.report("C04-no-match-error", "loop-exit", "when no rule matches the transformer does not end in "
                               "Err(MacroMissMatch) only", where_of(tr))
    ctx.guarded('C04-first-match', d_first >= 8, _old_first)

    # ------------------------------------------------------------------ C04-kind-table
    ctx.rule("C04-expansion", "rule sets of the supported class (pattern variables, _, literal identifiers, literal data, sub-lists, vectors, a "
                              "final ellipsis per list incl. list sub-patterns under it; templates with ellipsis sub-templates) parsed by the "
                              "crate's own transform_transformer and applied to uses of 0..3 items (atoms, lists, vectors, dotted forms): the "
                              "expansion, or `no rule matches`, is the one the statement's matching relation gives")
    from . import expandtables
    expandtables.rule_expansion(ctx, "C04-expansion", "C04-no-match-error")
    ctx.rule("C04-kind-table", "decision table of match_datum over (pattern kind x datum kind)")
    kind_table(ctx, fb, md, mds)

    # ------------------------------------------------------------------ C04-template-total
    ctx.rule("C04-template-total", "every template form is substituted; identifiers consult the substitution table first")
    for name in (SUB, SUBE):
        f = fb.find(name)
        sw = next(iter(mir.discriminant_switches(f, "SyntaxTemplateBody")), None)
        if not sw:
            ctx.report("C04-template-total", name.rsplit("::", 1)[-1] + "/dispatch", "no dispatch on SyntaxTemplateBody", where_of(f))
            continue
        sb, place, a, targets, other = sw
        short = name.rsplit("::", 1)[-1]
        for i, vn in fb.variants("parser::macros::SyntaxTemplateBody"):
            tgt = targets.get(i, other)
            dead = f.blocks[tgt]["term"]["k"] == "unreachable"
            ctx.inst("C04-template-total", "%s/%s" % (short, vn), {"target": tgt})
            if dead:
                ctx.report("C04-template-total", "%s/%s" % (short, vn), "template variant %s is not handled" % vn, where_of(f))
        ii = fb.variant_index("parser::macros::SyntaxTemplateBody", "Identifier")
        reg = mir.dominated_region(f, targets.get(ii, other))
        gets = [(b, t) for b, t in f.calls(reg) if callee_matches(t, "HashMap::get")]
        pf = Prov(f)
        if len(gets) != 1:
            ctx.report("C04-template-total", short + "/identifier-lookup", "an identifier in a template is not looked up in the "
                       "substitution table", where_of(f))
        else:
            gs = mir.result_switch_after(f, gets[0][0])
            if gs:
                none_r = mir.dominated_region(f, gs[1].get(0, gs[2]))
                some_r = mir.dominated_region(f, gs[1].get(1, gs[2]))
                sym_in_none = any(v == "Symbol" for _, _, _, _, v in mir.aggregates(f, none_r))
                sym_in_some = any(v == "Symbol" for _, _, _, _, v in mir.aggregates(f, some_r))
                ctx.inst("C04-template-total", short + "/identifier", {"unbound_emits_symbol": sym_in_none, "bound_emits_symbol": sym_in_some})
                if not sym_in_none or sym_in_some:
                    ctx.report("C04-template-total", short + "/identifier-arms", "pattern variables must be replaced by what they "
                               "matched and other identifiers emitted as symbols", where_of(f))
            # substitution table is the parameter
            if pf.arg_roots(gets[0][1]["args"][0]) != {2}:
                ctx.report("C04-template-total", short + "/table", "lookup is not in the substitutions parameter", where_of(f))

    # ------------------------------------------------------------------ C04-reexpand + keywords
    ctx.rule("C04-reexpand", "macro uses are detected before procedure calls and their expansion is re-expanded")
    tts = fb.find("parser::parser::Parser::transform_to_statement")
    pt = Prov(tts)
    kw = {}
    for b, lit, tt, ft in mir.string_tests(tts):
        reg = mir.dominated_region(tts, tt)
        cs = sorted({callee(t).rsplit("::", 1)[-1] for _, t in tts.calls(reg) if (callee(t) or "").startswith("parser::parser::Parser::transform_")})
        kw[lit] = cs
    # `match keyword.as_str()` may compile to a switch on string comparisons; fall back to collecting literals
    ctx.inst("C04-reexpand", "keyword-table", kw)
    WANT = {"define": "transform_definition", "define-library": "transform_library", "lambda": "transform_lambda",
            "if": "transform_condition", "import": "transform_import_decl", "quote": "transform_quote",
            "set!": "transform_assignment", "define-syntax": "transform_syntax_definition"}
    # what each core keyword is parsed as: the crate's lexer and parser on one form per keyword (readtables); the string tests of
    # transform_to_statement only as a fallback for keywords the parser could not be followed on
    from . import readtables as _rt04
    kwt = _rt04.rule_keywords(ctx, "C04-reexpand")

    def _kw_shape():
        for k, fn in WANT.items():
            if kwt.get(k) is not None:
                continue
            if k not in kw:
                ctx.report("C04-reexpand", "keyword/" + k, "core keyword %r is not recognised by transform_to_statement" % k, where_of(tts))
            elif kw[k] != [fn]:
                ctx.report("C04-reexpand", "keyword/" + k, "core keyword %r is handled by %s, expected %s" % (k, kw[k], fn), where_of(tts))
    ctx.guarded("C04-reexpand", all(kwt.get(k) is not None for k in WANT), _kw_shape)
    gets = [(b, t) for b, t in tts.calls() if callee_matches(t, "environment::LexicalScope::get")]
    trs = [(b, t) for b, t in tts.calls() if callee_matches(t, "Transformer::transform")]
    rec = [(b, t) for b, t in tts.calls() if callee(t) == tts.name]
    # (the call transformer itself, or a helper of the parser that wraps it)
    _wraps = {g.name for g in fb.all("lib") if g.name != tts.name and any(callee_matches(t2, "Parser::transform_procedure_call") for _, t2 in g.calls())}
    tpc = [(b, t) for b, t in tts.calls() if callee_matches(t, "Parser::transform_procedure_call") or callee(t) in _wraps]
    if len(gets) != 1 or len(trs) != 1 or not rec or not tpc:
        ctx.undecided("C04-reexpand", "shape", "macro lookup / expansion / re-submission / plain call not found in transform_to_statement itself (get=%d transform=%d rec=%d call=%d)" % (
            len(gets), len(trs), len(rec), len(tpc)), where_of(tts))
    else:
        gs = mir.result_switch_after(tts, gets[0][0])
        some_r = mir.dominated_region(tts, gs[1].get(1, gs[2])) if gs else set()
        none_r = mir.dominated_region(tts, gs[1].get(0, gs[2])) if gs else set()
        ok1 = trs[0][0] in some_r and any(b in some_r for b, _ in rec)
        ok2 = any(b in none_r for b, _ in tpc) and not any(b in some_r for b, _ in tpc)
        fed = any(("call", trs[0][0], callee(trs[0][1])) in pt.op_roots(t["args"][0]) for b, t in rec)
        env_ok = pt.arg_roots(gets[0][1]["args"][0]) == {2}
        ctx.inst("C04-reexpand", "macro-use", {"expand_on_hit": ok1, "call_on_miss": ok2, "expansion_resubmitted": fed})
        if not (ok1 and ok2 and fed and env_ok):
            ctx.report("C04-reexpand", "macro-use", "a macro use is not (looked up in the syntax environment, expanded, and "
                       "re-submitted); hit=%s miss=%s resubmitted=%s env=%s" % (ok1, ok2, fed, env_ok), where_of(tts))
        # the transformer receives the whole use (keyword + remaining forms)
    return EXPLANATION, NOT_DECIDED


def kind_table(ctx, fb, md, mds):
    pvars = fb.variants("parser::macros::SyntaxPatternBody")
    dvars = fb.variants("parser::datum::DatumBody")
    p = Prov(md)
    for pi, pn in pvars:
        for di, dn in dvars:
            subcases = [None]
            if pn == "Identifier":
                subcases = [False, True]   # is the identifier in the literal set?
            for lit in subcases:
                calls = []

                def oracle(ff, bb, tt, env, lit=lit):
                    c = callee(tt) or ""
                    calls.append((bb, tt))
                    if c.endswith("HashSet::contains"):
                        return lit
                    if c.endswith("HashSet::get"):
                        return (absint.Enum(1, [tt["args"][1] and absint.operand(env, tt["args"][1])]) if lit else absint.Enum(0, []))
                    if c.endswith("::branch"):
                        # propagate: Continue(payload unknown)
                        return absint.Enum(0, [absint.UNKNOWN])
                    return None
                pat = absint.Enum(pi, [absint.UNKNOWN, absint.UNKNOWN])
                dat = absint.Enum(di, [absint.UNKNOWN, absint.UNKNOWN])
                env = {1: [pat, absint.UNKNOWN], 2: [dat, absint.UNKNOWN], 3: 0}
                try:
                    kind, b, env2 = absint.run_fragment(md, 0, env, oracle=oracle, stuck_ok=True)
                except absint.Loop as e:
                    kind, b, env2 = "loop", None, env
                r = env2.get(0)
                if kind == "return" and isinstance(r, absint.Enum) and getattr(r, "name", "") == "Ok":
                    v = r.fields[0]
                    res = v if isinstance(v, bool) else "depends"
                elif kind == "stuck":
                    res = "depends"
                else:
                    res = kind
                cnames = [callee(t) for _, t in calls]
                key = "%s/%s%s" % (pn, dn, "" if lit is None else ("/literal" if lit else "/variable"))
                # expectation
                if pn in ("Underscore", "Ellipsis"):
                    want = True
                elif pn == "Pair":
                    want = "stream" if dn == "Pair" else False
                elif pn == "Vector":
                    want = "stream" if dn == "Vector" else False
                elif pn == "Identifier":
                    want = "bind" if not lit else ("symeq" if dn == "Symbol" else False)
                else:
                    want = "payload-eq" if dn == "Primitive" else False
                ctx.inst("C04-kind-table", key, {"result": res, "calls": [c.rsplit("::", 1)[-1] for c in cnames if c][:6]})
                ok = True
                why = ""
                if want is True or want is False:
                    ok = res is want
                    why = "result %s, expected %s" % (res, want)
                elif want == "stream":
                    # (through match_datum_stream itself, or through a helper of this crate that hands the elements to it)
                    helpers = {g.name for g in fb.all("lib") if g.name not in (md.name, mds.name) and
                               any(callee(t2) == mds.name for _, t2 in g.calls())}
                    ok = res == "depends" and (mds.name in cnames or any(c in helpers for c in cnames))
                    why = "must defer to match_datum_stream (result %s, calls %s)" % (res, [c.rsplit('::', 1)[-1] for c in cnames if c][:4])
                elif want == "bind":
                    ins = [t for _, t in calls if callee_matches(t, "HashMap::insert")]
                    ok = res is True and len(ins) == 1
                    why = "a pattern variable must bind (insert into the substitutions) and succeed (result %s, inserts %d)" % (res, len(ins))
                    if ok:
                        t = ins[0]
                        if p.arg_roots(t["args"][0]) != {5} or 2 not in _taint_args(md, p, t["args"][2]) or 1 not in _taint_args(md, p, t["args"][1]):
                            ok = False
                            why = "the binding is not substitutions[pattern variable] = matched datum"
                elif want == "symeq":
                    eqs = [t for _, t in calls if (callee(t) or "").endswith("::eq") or (callee(t) or "").endswith("::ne")]
                    ok = res == "depends" and len(eqs) >= 1 and all(_both_sides(md, p, t) for t in eqs)
                    why = "a literal identifier must be compared with the datum symbol (result %s, comparisons %d)" % (res, len(eqs))
                elif want == "payload-eq":
                    eqs = [t for _, t in calls if (callee(t) or "").endswith("::eq") or (callee(t) or "").endswith("::ne")]
                    ok = res == "depends" and len(eqs) >= 1 and all(_both_sides(md, p, t) for t in eqs)
                    why = ("a literal datum pattern must match only an equal datum: the verdict is %s and %s" % (
                        "the constant %s" % res if isinstance(res, bool) else res,
                        "no comparison of the two payloads is made" if not eqs else "the comparison does not read both payloads"))
                if not ok and want == "stream" and kind == "stuck" and mds.name not in cnames:
                    # the walk stopped at a test on unknown values before any element was looked at (a length pre-check, say): no
                    # verdict from this row — what the matcher answers on such uses is decided by the C04-expansion tables
                    ctx.undecided("C04-kind-table", key, "%s pattern against %s datum: a test on the unknown elements comes before the "
                                  "element-wise match (calls %s)" % (pn, dn, [c.rsplit('::', 1)[-1] for c in cnames if c][:4]), where_of(md))
                elif not ok and kind == "stuck":
                    # the walk stopped at a test on values this row leaves unknown: no verdict from this row (what the matcher answers
                    # on real uses is decided by the C04-expansion tables)
                    ctx.undecided("C04-kind-table", key, "%s pattern against %s datum: the matcher's answer depends on a test this row cannot "
                                  "follow (calls %s)" % (pn, dn, [c.rsplit('::', 1)[-1] for c in cnames if c][:4]), where_of(md))
                elif not ok:
                    ctx.report("C04-kind-table", key, why, where_of(md))
    ctx.floor("C04-kind-table", 24)


def _taint_args(f, p, o):
    l = mir.op_local(o)
    if l is None:
        return set()
    r = p.taint_reach(l)
    return {a for a in range(1, f.arg_count + 1) if a in r}


def _both_sides(f, p, t):
    a = _taint_args(f, p, t["args"][0]) | set()
    b = _taint_args(f, p, t["args"][1]) | set()
    return (1 in a and 2 in b) or (2 in a and 1 in b)
