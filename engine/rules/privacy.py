"""Visibility queries over the type-checked program (ADT facts carry the compiler's resolved field visibilities).
Used where a who-may-write census inside the crate is only complete if no embedding can reach the field directly — the facts
the design planned to witness with compile_fail doctests; the compiler's own visibility is the same information, read
directly."""
from .ctx import where_of


def require_restricted(ctx, rule, fb, adt_suffix, fields, why):
    """Record the visibility of the fields a who-may-write census is about.  Informational: the properties quantify over
    Scheme programs run by the interpreter, for which the crate-internal census is complete whatever the visibility; a public
    field only widens what an *embedding* could do, which is noted as an assumption, not reported (making a field `pub`
    changes no behaviour, so it must not raise an alarm)."""
    a = fb.adt(adt_suffix)
    seen = {}
    for v in a["variants"]:
        for f in v["fields"]:
            seen[f["name"]] = f["vis"]
    for name in fields:
        vis = seen.get(name)
        key = "%s.%s" % (adt_suffix.rsplit("::", 1)[-1], name)
        ctx.inst(rule, "visibility/" + key, {"visibility": (vis or "missing").split("(")[0]}, nontrivial=False)
        if vis == "Public":
            ctx.assume("embedding code does not write %s directly (the field is public): %s" % (key, why))


def writers(fb, field, methods=("insert", "remove", "clear", "push", "extend", "retain", "drain", "take", "replace", "borrow_mut")):
    """functions of the crate that mutate `<x>.field` (assignments to the field, or &mut method calls on it)"""
    from . import mir
    from .mir import callee
    out = {}
    for f in fb.all("lib"):
        for b, i, s in f.stmts():
            if s["k"] == "assign" and any(e.get("name") == field for e in s["place"]["proj"]) and not f.blocks[b]["cleanup"]:
                # a plain write, or a &mut borrow of the field later handed to a mutating method
                if s["place"]["proj"] and s["place"]["proj"][-1].get("name") == field:
                    out.setdefault(f.name.split("::{closure")[0], set()).add("assign")
            if s["k"] == "assign" and s["rv"]["k"] == "ref" and s["rv"].get("mut") and \
                    any(e.get("name") == field for e in s["rv"]["place"]["proj"]):
                dst = s["place"]["local"]
                for bb, t in f.calls():
                    if any(mir.op_local(a) == dst for a in t["args"]):
                        m = (callee(t) or "?").rsplit("::", 1)[-1]
                        if m in methods:
                            out.setdefault(f.name.split("::{closure")[0], set()).add(m)
    return out
