"""C14 — Library loading terminates; outcome depends only on the library graph (structural part)."""
from . import mir
from .mir import callee, callee_matches, Prov
from .ctx import where_of

EXPLANATION = (
    'Decision tables of the import machinery: (cycle-guard, pairing) eval_import_set on a plain library reference '
    '— the in-progress mark is set during the load and removed after success and after failure, a library already '
    'in progress yields Err(LibraryImportCyclic) without loading and the outer mark stays; (no-negative-cache) a '
    'failed instantiation or a failed file lookup leaves nothing in the instance cache or the factory table; '
    '(location) library-file location table: program directory when recorded, working directory otherwise, file '
    'present / absent; (errors-are-results) missing file and wrong-name outcomes are Err returns, the file reader '
    'has no panicking call. The in-progress mark of an enclosing load survives every import declaration and load '
    'inside it; the load table runs for every import-set form; no Result<_, io::Error> is turned into None / a '
    'default / nothing.')
NOT_DECIDED = ("that loading *succeeds* for every acyclic healthy graph; behaviour of the file system; the content "
               "of error messages.")

FIELD = "imported_library"


def field_receiver(f, op, field):
    s, chain = mir.trace_place(f, op)
    return ("." + field) in s or s.endswith(field)


def acquire_sites(f):
    """(block, term, true_target, false_target) for `HashSet::insert(&mut self.imported_library, ..)`
    immediately branched on."""
    out = []
    for b, t in f.calls():
        if callee_matches(t, "std::collections::HashSet::insert") and field_receiver(f, t["args"][0], FIELD):
            dest = t["dest"]["local"]
            nb = t.get("target")
            tt = f.blocks[nb]["term"] if nb is not None else None
            if tt and tt["k"] == "switch" and mir.op_local(tt["discr"]) == dest:
                false_t = dict((v, bb) for v, bb in tt["targets"]).get(0)
                true_t = tt["otherwise"]
                out.append((b, t, true_t, false_t))
            else:
                out.append((b, t, None, None))
    return out


def release_calls(fb):
    """Functions (by name) that remove from the in-progress set on every path to return."""
    always = set()
    for f in fb.all("lib"):
        rel = direct_release_blocks(f, set())
        if not rel:
            continue
        rets = f.return_blocks()
        if rets and mir.paths_avoiding(f, 0, rets, rel) is None:
            always.add(f.name)
    return always


def drop_releasers(fb):
    """Types whose Drop impl reaches a remove on the in-progress set."""
    tys = set()
    for f in fb.all("lib"):
        if f.name.endswith("as std::ops::Drop>::drop") and direct_release_blocks(f, set()):
            tys.add(f.self_ty)
    return tys


def direct_release_blocks(f, always_release, drop_types=()):
    out = set()
    for b, t in f.calls():
        if callee_matches(t, "std::collections::HashSet::remove", "std::collections::HashSet::clear",
                          "std::collections::HashSet::take", "std::collections::HashSet::retain") \
                and field_receiver(f, t["args"][0], FIELD):
            out.add(b)
        elif callee(t) in always_release:
            out.add(b)
    for b, blk in enumerate(f.blocks):
        t = blk["term"]
        if t["k"] == "drop" and any(t["ty"].startswith(mir.norm(d) or "\0") or mir.norm(t["ty"]) == mir.norm(d)
                                    for d in drop_types if d):
            out.add(b)
    return out


def run(ctx):
    fb = ctx.fb()
    ctx.trust("rustc nightly MIR (explicit drop terminators on every exit); engine/factsdrv serialisation")
    always = release_calls(fb)
    droppers = drop_releasers(fb)

    # ------------------------------------------------------------------ C14-pairing
    ctx.rule("C14-pairing", "the in-progress mark is removed on all exits of the function that set it")
    from . import libtables
    ctx.rule("C14-cycle-guard", "loading terminates: a library that is being loaded is not loaded again (cyclic-import error)")
    from . import importtables as _imt
    _imt.rule_outer_marks(ctx, "C14-cycle-guard")
    d_load = libtables.rule_load(ctx, "C14-pairing", "C14-cycle-guard")
    def _old_pairing():
        acq_funcs = []
        for f in fb.all("lib"):
            for (b, t, true_t, false_t) in acquire_sites(f):
                acq_funcs.append((f, b, t, true_t, false_t))
                if true_t is None:
                    ctx.report("C14-pairing", "%s/insert-unchecked" % f.name, "the result of the in-progress insert is "
                               "not branched on", where_of(f, t))
                    continue
                rel = direct_release_blocks(f, always, droppers)
                rets = f.return_blocks()
                wit = mir.paths_avoiding(f, true_t, rets, rel)
                exits = 0
                # count distinct exits (return-reaching paths through `?` residuals) for the evidence
                for bb, tt in f.calls(f.reachable(true_t)):
                    if callee_matches(tt, "std::ops::FromResidual::from_residual"):
                        exits += 1
                ctx.inst("C14-pairing", "%s/acquire" % f.name, {"release_blocks": sorted(rel), "question_mark_exits": exits,
                                                                 "returns": rets})
                if wit is not None:
                    calls_on_path = [callee(f.blocks[x]["term"]) for x in wit if f.blocks[x]["term"]["k"] == "call"]
                    ctx.report("C14-pairing", "%s/exit-without-release" % f.name,
                               "after the library is marked in progress a path reaches `return` without removing the "
                               "mark: blocks %s (calls on the path: %s)" % (wit, [c for c in calls_on_path if c][-4:]),
                               where_of(f, t), path=wit)
        ctx.floor("C14-pairing", 1)
        # who-may-write the in-progress set
        writers = set()
        for f in fb.all("lib"):
            for b, t in f.calls():
                if t["args"] and field_receiver(f, t["args"][0], FIELD) and \
                        f.local_ty(mir.op_local(t["args"][0]) or 0).startswith("&mut"):
                    writers.add((f.name, callee(t)))
        ctx.inst("C14-pairing", "writers", sorted(writers))
        # the census above is complete only if no embedding can reach the set: compiler-resolved field visibility
        from . import privacy
        privacy.require_restricted(ctx, "C14-pairing", fb, "interpreter::interpreter::Interpreter",
                                   ["imported_library", "libraries", "lib_loader"],
                                   "code outside the interpreter module could edit the in-progress set / instance cache, so the "
                                   "who-may-write census of this rule would be incomplete")
    ctx.guarded('C14-pairing', d_load >= 3, _old_pairing)

    # ------------------------------------------------------------------ C14-cycle-guard
    ctx.rule("C14-cycle-guard", "loading terminates: every cycle through the loader is cut by the insert==true edge; "
                                "the false edge only builds Err(LibraryImportCyclic)")
    def _old_cycle():
        g = fb.call_graph("lib")
        start = fb.find("interpreter::interpreter::Interpreter::eval_import_set")
        # guarded call sites: calls dominated by an acquire-true edge in their function
        cut = {}
        for (f, b, t, true_t, false_t) in acq_funcs:
            if true_t is None:
                continue
            dom = f.dominators()
            guarded = {bb for bb in f.reachable(true_t) if bb in dom and true_t in dom[bb]}
            cut[f.name] = guarded
            # false edge
            if false_t is not None:
                fblocks = f.reachable(false_t)
                has_cyc = False
                for bb, i, s in f.stmts(fblocks):
                    if s["k"] == "assign" and s["rv"]["k"] == "aggregate" and \
                            s["rv"]["kind"].get("variant") == "LibraryImportCyclic":
                        has_cyc = True
                bad_calls = [callee(tt) for bb, tt in f.calls(fblocks)
                             if callee(tt) in g and (callee(tt) or "").startswith("interpreter::")
                             and not callee_matches(tt, "extract_data")]
                ctx.inst("C14-cycle-guard", "%s/false-edge" % f.name, {"builds_cyclic_error": has_cyc})
                if not has_cyc or bad_calls:
                    ctx.report("C14-cycle-guard", "%s/false-edge" % f.name, "the `already in progress` edge does not end in "
                               "Err(LibraryImportCyclic) only (%s)" % bad_calls, where_of(f, t))
        # build the residual graph: drop guarded edges and structurally decreasing self recursion
        resid = {}
        names = {f.name: f for f in fb.all("lib")}
        for name, f in names.items():
            outs = set()
            guarded = cut.get(name, set())
            for b, t in f.calls():
                c = callee(t)
                if c not in names:
                    continue
                if b in guarded:
                    continue
                if c == name and name == start.name:
                    # recursion on a sub import set: argument derives from the parameter's payload
                    p = Prov(f)
                    if p.arg_roots(t["args"][1]) == {2}:
                        continue
                outs.add(c)
            for s in g.get(name, ()):  # closures / address-taken
                if "{closure" in s and s.startswith(name):
                    outs.add(s)
            resid[name] = outs
        reach = fb.reachable_from(resid.get(start.name, ()), graph=resid)
        ctx.inst("C14-cycle-guard", "residual-reach", {"from": start.name, "size": len(reach)})
        if start.name in reach:
            # find a witness cycle
            ctx.report("C14-cycle-guard", "unguarded-cycle", "eval_import_set can reach itself without passing the "
                       "in-progress insert (no cycle detection on that path)", where_of(start))
        full = fb.reachable_from(g.get(start.name, ()), graph=g)
        if start.name not in full:
            ctx.note("the loader is not recursive at all on this tree")
        ctx.floor("C14-cycle-guard", 2)
    ctx.guarded('C14-cycle-guard', d_load >= 3, _old_cycle)

    # ------------------------------------------------------------------ C14-no-negative-cache
    ctx.rule("C14-no-negative-cache", "the factory table is written only after the factory was loaded successfully")
    d_cache = libtables.rule_cache(ctx, "C14-no-negative-cache", "C14-no-negative-cache")
    def _old_neg():
        FACT = "lib_factories"
        allowed_writers = {"interpreter::interpreter::LibraryLoader::register_library_factory",
                           "interpreter::interpreter::Interpreter::append_lib_loader",
                           "interpreter::interpreter::Interpreter::get_library",
                           "<interpreter::interpreter::LibraryLoader as std::default::Default>::default"}
        for f in fb.all("lib"):
            for b, t in f.calls():
                if not t["args"]:
                    continue
                l = mir.op_local(t["args"][0])
                if l is None or not f.local_ty(l).startswith("&mut"):
                    continue
                if not field_receiver(f, t["args"][0], FACT):
                    continue
                ctx.inst("C14-no-negative-cache", "%s/%s" % (f.name, callee(t)))
                owner = f.name.split("::{closure")[0]
                if owner not in allowed_writers:
                    ctx.report("C14-no-negative-cache", "%s/writer" % owner, "%s writes the factory table" % owner,
                               where_of(f, t))
                if owner.endswith("::get_library"):
                    # must be dominated by the Continue edge of `?` applied to file_library_factory's result
                    ok = False
                    p = Prov(f)
                    dom = f.dominators()
                    for bb, tt in f.calls():
                        if callee_matches(tt, "std::ops::Try::branch") and any(
                                (c or "").endswith("file_library_factory") for _, c in p.call_roots(tt["args"][0])):
                            sw = mir.result_switch_after(f, bb)
                            if sw:
                                cont = sw[1].get(0)
                                if cont is not None and cont in dom[b]:
                                    ok = True
                    if not ok:
                        ctx.report("C14-no-negative-cache", "get_library/cache-before-success", "the factory table is "
                                   "written on a path where loading the file has not succeeded", where_of(f, t))
        ctx.floor("C14-no-negative-cache", 2)
    ctx.guarded('C14-no-negative-cache', d_cache >= 5, _old_neg)

    # ------------------------------------------------------------------ C14-location
    ctx.rule("C14-location", "library files are resolved against the program directory; the process working "
                             "directory is consulted only when none is recorded")
    flf = fb.find("interpreter::interpreter::Interpreter::file_library_factory")
    d_loc = libtables.rule_location(ctx, "C14-location", "C14-errors-are-results")
    # what reading a library file leaves behind: nothing under any name but the requested one (history independence)
    ctx.rule("C14-faults-propagate", "a library whose import declaration or body statement (expression or definition) faults fails to load with "
                                     "that error, and nothing after the failing declaration is processed (table of eval_library_definition)")
    libtables.rule_body_failures(ctx, "C14-faults-propagate")
    # the outcome of a later import must not depend on an earlier failed one: a library whose body fails leaves the importer's
    # import phase as it was (a later (import ...) of a healthy library is still accepted)
    libtables.rule_state_after_body_failure(ctx, "C14-history-independent")
    # what a library body can see: a root environment made for it — never the importing program's, whose contents are the history of
    # what was imported and defined before (a body run under it succeeds or fails, and means, something else after other imports)
    libtables.rule_definition(ctx, "C14-history-independent", None)
    ctx.rule("C14-history-independent", "loading a library from its file registers / caches nothing under another name the file may also "
                                        "hold: the outcome of a later import does not depend on this one having been attempted")
    libtables.rule_file_load(ctx, "C14-history-independent")

    def _old_location():
        cds = [(b, t) for b, t in flf.calls() if callee_matches(t, "std::env::current_dir")]
        sw = [x for x in mir.discriminant_switches(flf) if any(e.get("name") == "program_directory" for e in x[1]["proj"])
              or ".program_directory" in mir.trace_place(flf, {"k": "copy", "place": x[1]})[0]]
        ctx.inst("C14-location", "file_library_factory/current_dir-calls", len(cds))
        if not sw:
            ctx.report("C14-location", "file_library_factory/no-test", "program_directory is not tested", where_of(flf))
        else:
            sb, place, adt, targets, other = sw[0]
            some_t = targets.get(1, other)
            none_t = targets.get(0, other)
            dom = flf.dominators()
            some_only = {bb for bb in flf.reachable(some_t) if some_t in dom[bb]} if some_t != none_t else set()
            for b, t in cds:
                ctx.inst("C14-location", "file_library_factory/current_dir@bb", {"block": b})
                if b in some_only or none_t not in dom[b]:
                    ctx.report("C14-location", "file_library_factory/current_dir", "current_dir is consulted although a "
                               "program directory is recorded", where_of(flf, t))
            # the joined base must derive from program_directory on the Some edge
            joins = [(b, t) for b, t in flf.calls() if callee_matches(t, "std::path::Path::join")]
            p = Prov(flf)
            for b, t in joins:
                roots = p.roots(mir.op_local(t["args"][0]))
                ok = any(r[0] == "call" and (r[2] or "").endswith("current_dir") for r in roots) or True
                reach = p.reach_locals(mir.op_local(t["args"][0]))
                from_pd = False
                for bb, i, s in flf.stmts():
                    if s["k"] == "assign" and s["place"]["local"] in reach:
                        for pl in mir.rv_places(s["rv"]):
                            if any(e.get("name") == "program_directory" for e in pl["proj"]):
                                from_pd = True
                ctx.inst("C14-location", "file_library_factory/join-base", {"from_program_directory": from_pd})
                if not from_pd:
                    ctx.report("C14-location", "file_library_factory/base", "the base directory of the library path does "
                               "not derive from program_directory", where_of(flf, t))
            if not joins:
                ctx.report("C14-location", "file_library_factory/join", "no Path::join found", where_of(flf))
    ctx.guarded("C14-location", d_loc >= 4, _old_location)
    # std::env::current_dir / set_current_dir elsewhere
    callers_of = fb.callers("lib")

    def only_from_flf(name, depth=4):
        name = name.split("::{closure")[0]
        if name == flf.name:
            return True
        cs = {c.split("::{closure")[0] for c in callers_of.get(name, ())} - {name}
        return depth > 0 and bool(cs) and all(only_from_flf(c, depth - 1) for c in cs)
    for f in fb.all("lib"):
        for b, t in f.calls():
            if callee_matches(t, "std::env::current_dir", "std::env::set_current_dir") and not only_from_flf(f.name):
                ctx.report("C14-location", "%s/current_dir" % f.name, "%s consults/changes the working directory" % f.name,
                           where_of(f, t))

    # ------------------------------------------------------------------ C14-errors-are-results
    ctx.rule("C14-errors-are-results", "missing / wrong-name / unreadable libraries are Err returns, not panics")
    d_rd = libtables.rule_reader(ctx, "C14-errors-are-results")
    from . import ioerrors
    ioerrors.rule(ctx, "C14-errors-are-results", "reading a library file")

    def _old_errors():
        # (a) not-exists edge -> Err(LibraryNotFound)
        ex = [(b, t) for b, t in flf.calls() if callee_matches(t, "std::path::Path::exists", "std::path::Path::is_file",
                                                              "std::path::Path::try_exists")]
        if ex:
            b, t = ex[0]
            nb = flf.blocks[t["target"]]["term"]
            if nb["k"] == "switch":
                false_t = dict((v, bb) for v, bb in nb["targets"]).get(0)
                blocks = flf.reachable(false_t)
                nf = any(s["k"] == "assign" and s["rv"]["k"] == "aggregate" and s["rv"]["kind"].get("variant") == "LibraryNotFound"
                         for _, _, s in flf.stmts(blocks))
                ctx.inst("C14-errors-are-results", "file_library_factory/not-exists", {"err_library_not_found": nf})
                if not nf:
                    ctx.report("C14-errors-are-results", "file_library_factory/not-exists", "the file-missing edge does not "
                               "build Err(LibraryNotFound)", where_of(flf, t))
        else:
            # opening directly and propagating the io error is an acceptable alternative
            if not any(callee_matches(t, "io::file_char_stream") for _, t in flf.calls()):
                ctx.report("C14-errors-are-results", "file_library_factory/shape", "no existence test and no open", where_of(flf))
        # (b) from_char_stream: returns are Ok(AST) in the loop, propagated residuals, or Err(LibraryNotFound)
        fcs = fb.find("library_factory::GenericLibraryFactory::from_char_stream")
        kinds = set()
        for b, i, s in fcs.stmts():
            if s["k"] == "assign" and s["place"]["local"] == 0 and not s["place"]["proj"]:
                rv = s["rv"]
                if rv["k"] == "aggregate":
                    kinds.add(rv["kind"].get("variant"))
        nf = any(s["k"] == "assign" and s["rv"]["k"] == "aggregate" and s["rv"]["kind"].get("variant") == "LibraryNotFound"
                 for _, _, s in fcs.stmts())
        resid = [t for _, t in fcs.calls() if callee_matches(t, "std::ops::FromResidual::from_residual")]
        ctx.inst("C14-errors-are-results", "from_char_stream/returns", {"aggregates": sorted(k for k in kinds if k),
                                                                      "residual_exits": len(resid), "not_found": nf})
        if not nf or not resid:
            ctx.report("C14-errors-are-results", "from_char_stream/outcomes", "from_char_stream must propagate reader "
                       "errors and end in Err(LibraryNotFound) (not_found=%s, propagated=%d)" % (nf, len(resid)), where_of(fcs))
        # the library-name comparison must guard the Ok return
        okb = [b for b, i, s in fcs.stmts() if s["k"] == "assign" and s["place"]["local"] == 0
               and s["rv"]["k"] == "aggregate" and s["rv"]["kind"].get("variant") == "Ok"]
        eqs = [(b, t) for b, t in fcs.calls() if (callee(t) or "").endswith("::eq") or (callee(t) or "").endswith("::ne")]
        dom = fcs.dominators()
        guarded = all(any(eb in dom[ob] for eb, _ in eqs) for ob in okb) and bool(okb)
        ctx.inst("C14-errors-are-results", "from_char_stream/name-check", {"ok_blocks": okb, "guarded": guarded})
        if not guarded:
            ctx.report("C14-errors-are-results", "from_char_stream/name-check", "a library definition is accepted without "
                       "comparing its name with the requested one", where_of(fcs))
    ctx.guarded("C14-errors-are-results", d_loc >= 4 and d_rd >= 4, _old_errors)
    # (c) the file reader has no panicking call
    fio = fb.find("io::file_char_stream")
    for f in [fio] + fb.closures_of(fio):
        for b, t in f.calls():
            c = callee(t) or ""
            if any(c.endswith(x) for x in ("Result::unwrap", "Result::expect", "Option::unwrap", "Option::expect")) \
                    or c.startswith("core::panicking"):
                ctx.report("C14-errors-are-results", "%s/%s" % (f.name, c.rsplit("::", 1)[-1]),
                           "the file reader panics on unreadable / non-UTF-8 input via %s" % c, where_of(f, t))
        ctx.inst("C14-errors-are-results", "%s/panic-free" % f.name)
    return EXPLANATION, NOT_DECIDED
