"""Engine B core: a small model of the MIR fact base and the shared analyses.

Everything here works on the JSON emitted by engine/factsdrv (see facts.py).
"""
import re
from collections import defaultdict, deque

# ----------------------------------------------------------------------------- names


def norm(path):
    """Strip generic arguments from a def path, keeping `<T as Trait>::m` qualifiers.

    interpreter::interpreter::Interpreter::<'a, R>::apply_procedure
        -> interpreter::interpreter::Interpreter::apply_procedure
    <values::Number<R> as std::ops::Add>::add -> <values::Number as std::ops::Add>::add
    """
    if path is None:
        return None
    out = []
    i = 0
    n = len(path)
    depth_keep = []  # stack: True when the '<' opened a qualified-self that is kept

    def strip_from(j):
        # skip a balanced <...> starting at j (path[j] == '<'); return index after it
        d = 0
        while j < n:
            c = path[j]
            if c == '<':
                d += 1
            elif c == '>':
                if j > 0 and path[j - 1] == '-':
                    pass  # '->'
                else:
                    d -= 1
                    if d == 0:
                        return j + 1
            j += 1
        return n

    while i < n:
        c = path[i]
        if c == '<':
            prev = path[i - 1] if i > 0 else ''
            if prev == ':' and i >= 2 and path[i - 2] == ':' and path.startswith("<impl ", i):
                # inherent impl on a non-nominal / aliased type: keep verbatim
                j = strip_from(i)
                out.append(path[i:j])
                i = j
                continue
            if prev == ':' and i >= 2 and path[i - 2] == ':':
                # turbofish ::<...> : drop it together with the preceding '::'
                j = strip_from(i)
                while out and out[-1] == ':':
                    out.pop()
                i = j
                continue
            if prev and (prev.isalnum() or prev == '_'):
                i = strip_from(i)
                continue
            depth_keep.append(True)
            out.append(c)
            i += 1
            continue
        if c == '>' and not (i > 0 and path[i - 1] == '-'):
            if depth_keep:
                depth_keep.pop()
            out.append(c)
            i += 1
            continue
        out.append(c)
        i += 1
    s = ''.join(out)
    s = s.replace("&'a ", "&").replace("&'b ", "&")
    return s


class Func:
    def __init__(self, j, crate):
        self.j = j
        self.crate = crate
        self.path = j["path"]
        self.name = norm(j["path"])
        self.raw = j["raw"]
        self.kind = j["kind"]
        self.vis = j["vis"]
        self.parent = norm(j["parent"]) if j.get("parent") else None
        self.trait = j.get("trait")
        self.self_ty = j.get("self_ty")
        self.derived = j.get("derived", False)
        self.span = j["span"]
        self.ret_ty = j.get("ret_ty")
        self.generic_params = j.get("generic_params") or []
        m = j["mir"]
        self.arg_count = m["arg_count"]
        self.locals = m["locals"]
        self.blocks = m["blocks"]
        self.upvars = m["upvars"]
        self._preds = None
        self._dom = None
        self._pdom = None

    def __repr__(self):
        return "<Func %s>" % self.name

    @property
    def file(self):
        return self.span.split('|')[0].rsplit(':', 2)[0]

    # ---- CFG
    def succs(self, b, include_unwind=False):
        t = self.blocks[b]["term"]
        k = t["k"]
        out = []
        if k == "goto":
            out = [t["target"]]
        elif k == "switch":
            out = [x[1] for x in t["targets"]] + [t["otherwise"]]
        elif k in ("call", "drop", "assert"):
            if t.get("target") is not None:
                out = [t["target"]]
            if include_unwind and t.get("unwind") is not None:
                out.append(t["unwind"])
        return out

    def preds(self):
        if self._preds is None:
            p = defaultdict(list)
            for b in range(len(self.blocks)):
                for s in self.succs(b):
                    p[s].append(b)
            self._preds = p
        return self._preds

    def reachable(self, start=0, avoid=()):
        seen = set()
        st = [start]
        avoid = set(avoid)
        while st:
            b = st.pop()
            if b in seen or b in avoid:
                continue
            seen.add(b)
            st.extend(self.succs(b))
        return seen

    def normal_blocks(self):
        return [b for b in sorted(self.reachable(0)) if not self.blocks[b]["cleanup"]]

    def dominators(self):
        """dom[b] = set of blocks dominating b (normal edges only)."""
        if self._dom is not None:
            return self._dom
        nodes = sorted(self.reachable(0))
        allset = set(nodes)
        dom = {b: set(allset) for b in nodes}
        dom[0] = {0}
        preds = self.preds()
        changed = True
        order = self.rpo()
        while changed:
            changed = False
            for b in order:
                if b == 0:
                    continue
                ps = [p for p in preds[b] if p in dom]
                if not ps:
                    continue
                new = set.intersection(*(dom[p] for p in ps)) | {b}
                if new != dom[b]:
                    dom[b] = new
                    changed = True
        self._dom = dom
        return dom

    def rpo(self):
        seen = set()
        post = []

        def dfs(b):
            stack = [(b, iter(self.succs(b)))]
            seen.add(b)
            while stack:
                node, it = stack[-1]
                adv = False
                for s in it:
                    if s not in seen:
                        seen.add(s)
                        stack.append((s, iter(self.succs(s))))
                        adv = True
                        break
                if not adv:
                    post.append(node)
                    stack.pop()
        dfs(0)
        return list(reversed(post))

    def back_edges(self):
        dom = self.dominators()
        out = []
        for b in dom:
            for s in self.succs(b):
                if s in dom[b]:
                    out.append((b, s))
        return out

    def loop_blocks(self):
        """Blocks that lie inside some natural loop."""
        preds = self.preds()
        inloop = set()
        for (tail, head) in self.back_edges():
            body = {head, tail}
            st = [tail]
            while st:
                x = st.pop()
                if x == head:
                    continue
                for p in preds[x]:
                    if p not in body:
                        body.add(p)
                        st.append(p)
            inloop |= body
        return inloop

    def loops(self):
        """List of (head, body-set) natural loops."""
        preds = self.preds()
        res = {}
        for (tail, head) in self.back_edges():
            body = res.setdefault(head, {head})
            body.add(tail)
            st = [tail]
            while st:
                x = st.pop()
                if x == head:
                    continue
                for p in preds[x]:
                    if p not in body:
                        body.add(p)
                        st.append(p)
        return list(res.items())

    def return_blocks(self):
        return [b for b in self.reachable(0) if self.blocks[b]["term"]["k"] == "return"]

    # ---- iteration helpers
    def calls(self, blocks=None):
        """Yield (block index, terminator) for every call terminator."""
        rng = sorted(blocks) if blocks is not None else range(len(self.blocks))
        for b in rng:
            t = self.blocks[b]["term"]
            if t["k"] == "call":
                yield b, t

    def stmts(self, blocks=None):
        rng = sorted(blocks) if blocks is not None else range(len(self.blocks))
        for b in rng:
            for i, s in enumerate(self.blocks[b]["stmts"]):
                yield b, i, s

    def local_ty(self, l):
        return self.locals[l]["ty"]

    def local_name(self, l):
        return self.locals[l].get("name")

    def locals_named(self, name):
        return [i for i, l in enumerate(self.locals) if l.get("name") == name]


def callee(t):
    """Normalised resolved callee of a call terminator (None for indirect calls)."""
    if not t:
        return None
    f = t.get("fn")
    if not f:
        return None
    return norm(f.get("resolved") or f.get("def"))


def callee_decl(t):
    if not t:
        return None
    f = t.get("fn")
    if not f:
        return None
    return norm(f.get("def"))


def callee_matches(t, *names):
    """True if the resolved or declared callee equals / ends with one of names."""
    r = callee(t)
    d = callee_decl(t)
    for n in names:
        for c in (r, d):
            if c is None:
                continue
            if c == n or c.endswith("::" + n) or c.endswith(n):
                return True
    return False


def span_loc(span):
    return span.split('|')[0]


def span_macros(span):
    parts = span.split('|')
    return parts[1:] if len(parts) > 1 else []


def from_expansion(span):
    return '|' in span


# ----------------------------------------------------------------------------- places / operands


def op_place(o):
    if o["k"] in ("copy", "move"):
        return o["place"]
    return None


def op_local(o):
    p = op_place(o)
    return p["local"] if p else None


def op_const(o):
    if o["k"] == "const":
        return o["c"]
    return None


def const_val(o):
    c = op_const(o)
    if c is None:
        return None
    return c.get("val")


def place_str(f, p):
    s = "_%d" % p["local"]
    for e in p["proj"]:
        k = e["k"]
        if k == "deref":
            s = "(*%s)" % s
        elif k == "field":
            s = "%s.%s" % (s, e.get("name") or e["i"])
        elif k == "downcast":
            s = "(%s as %s)" % (s, e.get("variant"))
        elif k == "index":
            s = "%s[_%d]" % (s, e["local"])
        else:
            s = "%s{%s}" % (s, k)
    return s


def op_str(f, o):
    if o["k"] in ("copy", "move"):
        return "%s %s" % (o["k"], place_str(f, o["place"]))
    if o["k"] == "const":
        c = o["c"]
        if "fn" in c:
            return "fn:" + norm(c["fn"].get("resolved") or c["fn"]["def"])
        if "val" in c:
            return "const %r" % (c["val"],)
        return "const " + c.get("text", "?")
    return "?"


def rv_str(f, rv):
    k = rv["k"]
    if k == "use":
        return op_str(f, rv["op"])
    if k == "ref":
        return "&%s%s" % ("mut " if rv["mut"] else "", place_str(f, rv["place"]))
    if k == "rawptr":
        return "&raw %s" % place_str(f, rv["place"])
    if k == "cast":
        return "%s as %s (%s)" % (op_str(f, rv["op"]), rv["ty"], rv["kind"])
    if k == "binop":
        return "%s(%s, %s)" % (rv["op"], op_str(f, rv["l"]), op_str(f, rv["r"]))
    if k == "unop":
        return "%s(%s)" % (rv["op"], op_str(f, rv["operand"]))
    if k == "discriminant":
        return "discriminant(%s)" % place_str(f, rv["place"])
    if k == "aggregate":
        kd = rv["kind"]
        if kd["k"] == "adt":
            head = "%s::%s" % (norm(kd["adt"]), kd["variant"])
        elif kd["k"] == "closure":
            head = "closure:" + norm(kd["def"])
        else:
            head = kd["k"]
        return "%s(%s)" % (head, ", ".join(op_str(f, o) for o in rv["ops"]))
    if k == "thread_local_ref":
        return "tls:" + rv["def"]
    return k + ":" + rv.get("text", "")


def dump(f):
    """MIR-like text of a function (for humans and for replay files)."""
    lines = ["fn %s  [%s]" % (f.name, f.span)]
    for i, l in enumerate(f.locals):
        lines.append("  let _%d: %s%s" % (i, l["ty"], ("  // " + l["name"]) if l.get("name") else ""))
    for b, blk in enumerate(f.blocks):
        lines.append("  bb%d%s:" % (b, " (cleanup)" if blk["cleanup"] else ""))
        for s in blk["stmts"]:
            if s["k"] == "assign":
                lines.append("    %s = %s" % (place_str(f, s["place"]), rv_str(f, s["rv"])))
            else:
                lines.append("    " + s["k"])
        t = blk["term"]
        k = t["k"]
        if k == "call":
            nm = callee(t) or ("indirect " + op_str(f, t["func"]))
            lines.append("    %s = %s(%s) -> %s  [%s]" % (
                place_str(f, t["dest"]), nm, ", ".join(op_str(f, a) for a in t["args"]),
                ("bb%d" % t["target"]) if t.get("target") is not None else "!", span_loc(t["span"])))
        elif k == "switch":
            lines.append("    switch(%s) %s otherwise bb%d" % (
                op_str(f, t["discr"]), " ".join("%s:bb%d" % (v, bb) for v, bb in t["targets"]), t["otherwise"]))
        elif k == "goto":
            lines.append("    goto bb%d" % t["target"])
        elif k == "drop":
            lines.append("    drop(%s) -> bb%d" % (place_str(f, t["place"]), t["target"]))
        elif k == "assert":
            lines.append("    assert(%s == %s, %s %s) -> bb%d" % (
                op_str(f, t["cond"]), t["expected"], t["kind"], t.get("op") or "", t["target"]))
        else:
            lines.append("    " + k)
    return "\n".join(lines)


# ----------------------------------------------------------------------------- fact base


class FactBase:
    def __init__(self, lib, binf):
        self.funcs = {}
        self.by_name = defaultdict(list)
        for crate, doc in (("lib", lib), ("bin", binf)):
            for j in doc["functions"]:
                f = Func(j, crate)
                key = (crate, f.raw)
                self.funcs[key] = f
                self.by_name[f.name].append(f)
        self.adts = {}
        for a in lib["adts"] + binf["adts"]:
            self.adts[norm(a["path"])] = a
        self.globals = lib["globals"] + binf["globals"]
        self._callers = None

    def all(self, crate=None):
        return [f for f in self.funcs.values() if crate is None or f.crate == crate]

    def find(self, suffix, crate="lib", required=True):
        """Unique function whose normalised path equals or ends with `::suffix`."""
        hits = [f for f in self.all(crate)
                if f.name == suffix or f.name.endswith("::" + suffix)]
        if len(hits) == 1:
            return hits[0]
        if not hits:
            if required:
                # the anchor is not there (renamed, split into helpers, inlined): not an error by itself.  Rules that evaluate
                # behaviour from the entry points never touch it; a shape rule that does raises AnchorMissing at that point.
                return MissingFunc(suffix)
            return None
        raise AnchorMissing("function anchor ambiguous: %s -> %s" % (suffix, [h.name for h in hits]))

    def find_all(self, pred, crate="lib"):
        return [f for f in self.all(crate) if pred(f)]

    def closures_of(self, f):
        """Closures syntactically nested in f (any depth)."""
        pre = f.name + "::{closure#"
        return [g for g in self.all(f.crate) if g.name.startswith(pre)]

    def by_call(self, t, crate="lib"):
        """the local function a call terminator resolves to, by its raw (unnormalised, unique) path — normalised names collide for
        impls that differ only in their generic arguments (`From<A> for T` / `From<B> for T`)"""
        fn = t.get("fn") if isinstance(t, dict) else None
        raw = (fn or {}).get("resolved_raw") or (fn or {}).get("raw")
        if not raw:
            return None
        if not hasattr(self, "_by_raw"):
            self._by_raw = {}
            for f in self.all():
                self._by_raw.setdefault((f.crate, f.raw), f)
        return self._by_raw.get((crate, raw))

    def by_path(self, name, crate="lib"):
        for f in self.by_name.get(name, []):
            if f.crate == crate:
                return f
        return None

    def adt(self, suffix):
        hits = [a for n, a in self.adts.items() if n == suffix or n.endswith("::" + suffix)]
        if len(hits) != 1:
            raise AnchorMissing("ADT anchor not found/ambiguous: %s (%d)" % (suffix, len(hits)))
        return hits[0]

    def variant_index(self, adt_suffix, variant):
        a = self.adt(adt_suffix)
        for v in a["variants"]:
            if v["name"] == variant:
                return v["i"]
        raise AnchorMissing("variant %s::%s not found" % (adt_suffix, variant))

    def variants(self, adt_suffix):
        return [(v["i"], v["name"]) for v in self.adt(adt_suffix)["variants"]]

    # ---- call graph
    def callees_of(self, f, include_closures=True):
        """Set of normalised callee names (resolved) directly called by f; closures created in
        f count as called by f (conservative)."""
        out = set()
        for b, t in f.calls():
            c = callee(t)
            if c:
                out.add(c)
        return out

    def call_graph(self, crate="lib"):
        """name -> set of local function names (resolved direct calls + closures built +
        fn items whose address is taken inside the body)."""
        g = defaultdict(set)
        names = {f.name for f in self.all(crate)}
        for f in self.all(crate):
            for b, t in f.calls():
                c = callee(t)
                if c in names:
                    g[f.name].add(c)
                # fn items passed as arguments (zero-sized FnDef constants)
                for a in t["args"]:
                    cc = op_const(a)
                    if cc and "fn" in cc:
                        n2 = norm(cc["fn"].get("resolved") or cc["fn"]["def"])
                        if n2 in names:
                            g[f.name].add(n2)
                # generic args naming local fn items / closures (e.g. map::<.., {closure}>)
            for b, i, s in f.stmts():
                if s["k"] != "assign":
                    continue
                rv = s["rv"]
                if rv["k"] == "aggregate" and rv["kind"]["k"] == "closure":
                    n2 = norm(rv["kind"]["def"])
                    if n2 in names:
                        g[f.name].add(n2)
                if rv["k"] == "cast" and "fn" in rv:
                    n2 = norm(rv["fn"].get("resolved") or rv["fn"]["def"])
                    if n2 in names:
                        g[f.name].add(n2)
                for o in rv_operands(rv):
                    cc = op_const(o)
                    if cc and "fn" in cc:
                        n2 = norm(cc["fn"].get("resolved") or cc["fn"]["def"])
                        if n2 in names:
                            g[f.name].add(n2)
        return g

    def callers(self, crate="lib"):
        if self._callers is None:
            inv = defaultdict(set)
            for a, bs in self.call_graph(crate).items():
                for b in bs:
                    inv[b].add(a)
            self._callers = inv
        return self._callers

    def reachable_from(self, roots, crate="lib", graph=None):
        g = graph or self.call_graph(crate)
        seen = set()
        st = list(roots)
        while st:
            x = st.pop()
            if x in seen:
                continue
            seen.add(x)
            st.extend(g.get(x, ()))
        return seen

    def call_sites(self, pred, crate="lib"):
        """All (func, block, terminator) whose call satisfies pred(term)."""
        out = []
        for f in self.all(crate):
            for b, t in f.calls():
                if pred(t):
                    out.append((f, b, t))
        return out


class AnchorMissing(Exception):
    pass


class MissingFunc:
    """stands for a function that no longer exists under its pinned name: its `name` matches no callee; touching anything else
    raises AnchorMissing (which a guarded fallback rule turns into UNDECIDED)"""
    missing = True

    def __init__(self, suffix):
        object.__setattr__(self, "_suffix", suffix)
        object.__setattr__(self, "name", "\0absent:" + suffix)

    def __bool__(self):
        return False

    def __getattr__(self, k):
        raise AnchorMissing("function anchor not found: %s" % object.__getattribute__(self, "_suffix"))


def rv_operands(rv):
    k = rv["k"]
    if k in ("use", "cast", "repeat"):
        return [rv["op"]]
    if k == "binop":
        return [rv["l"], rv["r"]]
    if k == "unop":
        return [rv["operand"]]
    if k == "aggregate":
        return rv["ops"]
    return []


def rv_places(rv):
    """Places read by an rvalue."""
    out = []
    for o in rv_operands(rv):
        p = op_place(o)
        if p:
            out.append(p)
    if rv["k"] in ("ref", "rawptr", "discriminant"):
        out.append(rv["place"])
    return out


# ----------------------------------------------------------------------------- provenance


class Prov:
    """Flow-insensitive, field-insensitive 'derives-from' over the locals of one body.

    root set of a local = the set of *origins* its value may derive from, where an origin
    is one of
        ("arg", i)                 parameter i (1-based local index)
        ("call", block, callee)    result of a call that is not a pass-through
        ("const", text)            a constant
        ("agg", block, stmt)       a freshly built aggregate (also derives from operands)
        ("tls", def)               thread-local reference
    Pass-through calls (Clone::clone, Deref::deref, Borrow, as_ref, into, Rc::clone, ...)
    propagate the provenance of their first argument.
    """

    PASS = (
        "std::clone::Clone::clone", "std::ops::Deref::deref", "std::ops::DerefMut::deref_mut",
        "std::convert::AsRef::as_ref", "std::convert::AsMut::as_mut", "std::borrow::Borrow::borrow",
        "std::convert::Into::into", "std::convert::From::from", "std::boxed::Box::new",
        "std::rc::Rc::new", "std::option::Option::as_ref", "std::option::Option::unwrap",
        "std::option::Option::as_deref", "std::iter::IntoIterator::into_iter",
        "std::slice::<impl [T]>::iter", "std::string::String::as_str",
        "std::borrow::ToOwned::to_owned", "std::string::ToString::to_string",
        "std::ops::Try::branch", "std::ops::FromResidual::from_residual",
    )

    def __init__(self, f, passthrough_extra=(), passthrough_pred=None):
        self.f = f
        self.extra = tuple(passthrough_extra)
        self.pred = passthrough_pred
        self.edges = defaultdict(set)   # local -> set of source locals
        self.origins = defaultdict(set)  # local -> direct origins
        self._build()
        self._roots = {}

    def is_pass(self, t):
        d = callee_decl(t) or ""
        r = callee(t) or ""
        for p in self.PASS + self.extra:
            if d == p or r == p or d.endswith(p) or r.endswith(p):
                return True
        if self.pred and self.pred(t):
            return True
        return False

    def _build(self):
        f = self.f
        for i in range(1, f.arg_count + 1):
            self.origins[i].add(("arg", i))
        for b, blk in enumerate(f.blocks):
            for si, s in enumerate(blk["stmts"]):
                if s["k"] != "assign":
                    continue
                dst = s["place"]["local"]
                rv = s["rv"]
                for p in rv_places(rv):
                    self.edges[dst].add(p["local"])
                    for e in p["proj"]:
                        if e["k"] == "index":
                            pass
                for o in rv_operands(rv):
                    c = op_const(o)
                    if c is not None:
                        self.origins[dst].add(("const", str(c.get("val", c.get("text")))))
                if rv["k"] == "aggregate":
                    self.origins[dst].add(("agg", b, si))
                if rv["k"] == "thread_local_ref":
                    self.origins[dst].add(("tls", rv["def"]))
            t = blk["term"]
            if t["k"] == "call":
                dst = t["dest"]["local"]
                if self.is_pass(t):
                    for a in t["args"][:1]:
                        p = op_place(a)
                        if p:
                            self.edges[dst].add(p["local"])
                        c = op_const(a)
                        if c is not None:
                            self.origins[dst].add(("const", str(c.get("val", c.get("text")))))
                else:
                    self.origins[dst].add(("call", b, callee(t) or "<indirect>"))
                    # by-reference outputs: a &mut argument may be written by the callee; we
                    # record the call as an origin of every local whose &mut is passed
                    for a in t["args"]:
                        p = op_place(a)
                        if p and self.f.local_ty(p["local"]).startswith("&mut"):
                            self.edges[p["local"]]  # touch
        # reference-to-local: `_a = &mut _b` followed by a call taking _a may modify _b.
        # We model `_b` as also deriving from whatever flows into `_a`'s callee results.

    # ---- taint ("may depend on"): like edges, but also through every call (result depends on
    # all arguments; the referent of a `&mut` argument depends on the other arguments).
    def _taint_graph(self):
        if getattr(self, "_tg", None) is not None:
            return self._tg
        f = self.f
        g = defaultdict(set)
        for k, v in self.edges.items():
            g[k] |= v
        refs = {}
        for b, i, s in f.stmts():
            if s["k"] == "assign" and s["rv"]["k"] == "ref" and not s["place"]["proj"]:
                refs.setdefault(s["place"]["local"], set()).add(s["rv"]["place"]["local"])
        for b, t in f.calls():
            dst = t["dest"]["local"]
            arg_locals = [op_local(a) for a in t["args"] if op_local(a) is not None]
            for a in arg_locals:
                g[dst].add(a)
            for a in arg_locals:
                if f.local_ty(a).startswith("&mut"):
                    targets = set()
                    st = [a]
                    seen = set()
                    while st:
                        x = st.pop()
                        if x in seen:
                            continue
                        seen.add(x)
                        for r in refs.get(x, ()):
                            targets.add(r)
                            st.append(r)
                        # reborrow chains `_a = &mut (*_b)`
                    for tg in targets | {a}:
                        for o in arg_locals:
                            if o != a:
                                g[tg].add(o)
        self._tg = g
        return g

    def taint_reach(self, local):
        g = self._taint_graph()
        seen = set()
        st = [local]
        while st:
            x = st.pop()
            if x in seen:
                continue
            seen.add(x)
            st.extend(g.get(x, ()))
        return seen

    def taint_calls(self, local):
        """callee names of all calls whose result may flow into `local`."""
        reach = self.taint_reach(local)
        out = {callee(t) for b, t in self.f.calls() if t["dest"]["local"] in reach}
        # calls that write through a `&mut` argument into a reached local
        refs = {}
        for b, i, s in self.f.stmts():
            if s["k"] == "assign" and s["rv"]["k"] == "ref" and not s["place"]["proj"]:
                refs.setdefault(s["place"]["local"], set()).add(s["rv"]["place"]["local"])
        for b, t in self.f.calls():
            for a in t["args"]:
                l = op_local(a)
                if l is not None and self.f.local_ty(l).startswith("&mut") and (refs.get(l, set()) & reach):
                    out.add(callee(t))
        return out

    def roots(self, local):
        if local in self._roots:
            return self._roots[local]
        seen = set()
        out = set()
        st = [local]
        while st:
            x = st.pop()
            if x in seen:
                continue
            seen.add(x)
            out |= self.origins.get(x, set())
            st.extend(self.edges.get(x, ()))
        self._roots[local] = out
        return out

    def reach_locals(self, local):
        seen = set()
        st = [local]
        while st:
            x = st.pop()
            if x in seen:
                continue
            seen.add(x)
            st.extend(self.edges.get(x, ()))
        return seen

    def op_roots(self, o):
        p = op_place(o)
        if p:
            return self.roots(p["local"])
        c = op_const(o)
        if c is not None:
            return {("const", str(c.get("val", c.get("text"))))}
        return set()

    def derives_from_arg(self, o_or_local, argi):
        r = self.roots(o_or_local) if isinstance(o_or_local, int) else self.op_roots(o_or_local)
        return ("arg", argi) in r

    def arg_roots(self, o_or_local):
        r = self.roots(o_or_local) if isinstance(o_or_local, int) else self.op_roots(o_or_local)
        return {x[1] for x in r if x[0] == "arg"}

    def call_roots(self, o_or_local):
        r = self.roots(o_or_local) if isinstance(o_or_local, int) else self.op_roots(o_or_local)
        return {(x[1], x[2]) for x in r if x[0] == "call"}


# ----------------------------------------------------------------------------- path queries


def paths_avoiding(f, start, targets, avoid):
    """Is some block in `targets` reachable from `start` along normal edges without passing
    through a block in `avoid`?  Returns a witness path (list of blocks) or None."""
    targets = set(targets)
    avoid = set(avoid)
    if start in avoid:
        return None
    prev = {start: None}
    dq = deque([start])
    while dq:
        b = dq.popleft()
        if b in targets:
            path = []
            x = b
            while x is not None:
                path.append(x)
                x = prev[x]
            return list(reversed(path))
        for s in f.succs(b):
            if s in prev or s in avoid:
                continue
            prev[s] = b
            dq.append(s)
    return None


def blocks_between(f, start, stop_blocks):
    """Blocks reachable from start without entering stop_blocks (start included)."""
    return f.reachable(start, avoid=stop_blocks)


def switch_arm_blocks(f, switch_block, target, joins=None):
    """Blocks 'owned' by one target of a switch: reachable from `target` and dominated by it
    (so, up to the join).  Good enough for match arms in MIR built from `match`."""
    dom = f.dominators()
    out = set()
    for b in f.reachable(target):
        if b in dom and target in dom[b]:
            out.add(b)
    return out


def discriminant_switches(f, adt_suffix=None):
    """Yield (block, place, adt, targets{variant_idx: block}, otherwise) for every
    `_x = discriminant(place); switchInt(move _x)` pair."""
    for b, blk in enumerate(f.blocks):
        t = blk["term"]
        if t["k"] != "switch":
            continue
        dl = op_local(t["discr"])
        if dl is None:
            continue
        for s in reversed(blk["stmts"]):
            if s["k"] == "assign" and s["place"]["local"] == dl and not s["place"]["proj"]:
                if s["rv"]["k"] == "discriminant":
                    adt = norm(s["rv"].get("adt") or "")
                    if adt_suffix is None or adt == adt_suffix or adt.endswith("::" + adt_suffix):
                        yield b, s["rv"]["place"], adt, {v: bb for v, bb in t["targets"]}, t["otherwise"]
                break


# ----------------------------------------------------------------------------- def chains


def defs_of(f):
    """local -> list of ('stmt', block, idx, stmt) / ('call', block, term) writing the whole local."""
    if getattr(f, "_defs", None) is not None:
        return f._defs
    d = defaultdict(list)
    for b, blk in enumerate(f.blocks):
        for i, s in enumerate(blk["stmts"]):
            if s["k"] == "assign" and not s["place"]["proj"]:
                d[s["place"]["local"]].append(("stmt", b, i, s))
        t = blk["term"]
        if t["k"] == "call" and not t["dest"]["proj"]:
            d[t["dest"]["local"]].append(("call", b, t))
    f._defs = d
    return d


def trace_const(f, o, depth=12):
    """Follow unique definitions of an operand back to a constant (through copies, refs,
    derefs and unsizing casts).  Returns the constant dict or None."""
    for _ in range(depth):
        c = op_const(o)
        if c is not None:
            return c
        p = op_place(o)
        if p is None:
            return None
        ds = defs_of(f).get(p["local"], [])
        if len(ds) != 1 or ds[0][0] != "stmt":
            return None
        rv = ds[0][3]["rv"]
        if rv["k"] in ("use", "cast"):
            o = rv["op"]
        elif rv["k"] == "ref":
            o = {"k": "copy", "place": rv["place"]}
        else:
            return None
    return None


def trace_place(f, o, depth=16):
    """Follow unique definitions through copies/refs/reborrows; return the textual access
    path of the final place, with constant indices substituted (e.g. `_14.location as Some.0[0]`)
    and the chain of locals visited."""
    chain = []
    for _ in range(depth):
        p = op_place(o)
        if p is None:
            return (op_str(f, o), chain)
        chain.append(p["local"])
        ds = defs_of(f).get(p["local"], [])
        nd = [e for e in p["proj"] if e["k"] != "deref"]
        if len(nd) == 1 and nd[0]["k"] == "field" and len(ds) == 1 and ds[0][0] == "stmt" \
                and ds[0][3]["rv"]["k"] == "aggregate" and ds[0][3]["rv"]["kind"]["k"] == "tuple":
            o = ds[0][3]["rv"]["ops"][nd[0]["i"]]
            continue
        if p["proj"] and not all(e["k"] == "deref" for e in p["proj"]):
            break
        if len(ds) != 1 or ds[0][0] != "stmt":
            break
        rv = ds[0][3]["rv"]
        if rv["k"] in ("use",):
            o = rv["op"]
        elif rv["k"] == "ref":
            o = {"k": "copy", "place": rv["place"]}
        else:
            break
    p = op_place(o)
    s = "_%d" % p["local"]
    nm = f.local_name(p["local"])
    if nm:
        s = nm
    for e in p["proj"]:
        k = e["k"]
        if k == "deref":
            continue
        if k == "field":
            s += ".%s" % (e.get("name") or e["i"])
        elif k == "downcast":
            s += "@%s" % e.get("variant")
        elif k == "index":
            c = trace_const(f, {"k": "copy", "place": {"local": e["local"], "proj": []}})
            s += "[%s]" % (c.get("val") if c else "_%d" % e["local"])
        elif k == "const_index":
            s += "[%s]" % e["offset"]
        else:
            s += "{%s}" % k
    return (s, chain)


def fmt_template(bs):
    """Decode the byte template of core::fmt::Arguments::new (this toolchain's encoding):
    returns a list of str pieces and ('arg', index|None, flags) placeholders."""
    out = []
    i = 0
    nxt = 0
    while i < len(bs):
        n = bs[i]
        i += 1
        if n == 0:
            break
        if n < 0x80:
            out.append(bytes(bs[i:i + n]).decode("utf-8", "replace"))
            i += n
        elif n == 0x80:
            ln = bs[i] | (bs[i + 1] << 8)
            i += 2
            out.append(bytes(bs[i:i + ln]).decode("utf-8", "replace"))
            i += ln
        else:
            flags = None
            idx = None
            if n & 1:
                flags = int.from_bytes(bytes(bs[i:i + 4]), "little")
                i += 4
            if n & 2:
                i += 2
            if n & 4:
                i += 2
            if n & 8:
                idx = bs[i] | (bs[i + 1] << 8)
                i += 2
            if idx is None:
                idx = nxt
            nxt = idx + 1
            out.append(("arg", idx, flags, n & 6))
    return out


def format_calls(f, blocks=None):
    """Yield (block, term, pieces, arg_fmt_kinds, arg_operands) for every fmt::Arguments
    construction in f.  pieces is the decoded template; arg kinds are 'display'/'debug'/...;
    arg_operands the operands handed to Argument::new_*."""
    for b, t in f.calls(blocks):
        if callee_matches(t, "std::fmt::Arguments::new", "core::fmt::Arguments::new"):
            c = trace_const(f, t["args"][0])
            pieces = fmt_template(c["bytes"]) if c and "bytes" in c else None
            # the args array: trace to an `array(...)` aggregate of Argument locals
            kinds, ops = [], []
            arr = t["args"][1] if len(t["args"]) > 1 else None
            agg = trace_aggregate(f, arr) if arr else None
            if agg:
                for o in agg["ops"]:
                    l = op_local(o)
                    ds = defs_of(f).get(l, []) if l is not None else []
                    if len(ds) == 1 and ds[0][0] == "call":
                        ct = ds[0][2]
                        nm = (callee(ct) or "").rsplit("::", 1)[-1]
                        kinds.append(nm.replace("new_", ""))
                        ops.append(ct["args"][0])
                    else:
                        kinds.append("?")
                        ops.append(o)
            yield b, t, pieces, kinds, ops
        elif callee_matches(t, "Arguments::from_str", "Arguments::from_str_nonconst", "Arguments::new_const"):
            c = trace_const(f, t["args"][0])
            yield b, t, ([c["val"]] if c and "val" in c else None), [], []


def trace_aggregate(f, o, depth=8):
    for _ in range(depth):
        p = op_place(o)
        if p is None:
            return None
        ds = defs_of(f).get(p["local"], [])
        if len(ds) != 1 or ds[0][0] != "stmt":
            return None
        rv = ds[0][3]["rv"]
        if rv["k"] == "aggregate":
            return rv
        if rv["k"] in ("use", "cast"):
            o = rv["op"]
        elif rv["k"] == "ref":
            o = {"k": "copy", "place": rv["place"]}
        else:
            return None
    return None


def result_switch_after(f, call_block):
    """For a call whose destination is a Result/Option/ControlFlow local that is immediately
    matched, return (switch_block, {variant_idx: target}, otherwise)."""
    t = f.blocks[call_block]["term"]
    dest = t["dest"]["local"]
    b = t.get("target")
    seen = set()
    while b is not None and b not in seen:
        seen.add(b)
        for sb, place, adt, targets, other in discriminant_switches(f):
            if sb == b and place["local"] == dest:
                return sb, targets, other
        succ = f.succs(b)
        if len(succ) != 1:
            return None
        b = succ[0]
    return None


def const_int(o):
    c = op_const(o)
    if c is None:
        return None
    v = c.get("val")
    if isinstance(v, bool):
        return int(v)
    if isinstance(v, int):
        return v
    return None


def str_of(f, o):
    """String literal an operand denotes (through refs / promoted constants), or None."""
    c = trace_const(f, o)
    if c is None:
        return None
    if isinstance(c.get("val"), str):
        return c["val"]
    ps = c.get("promoted_strs")
    if ps and len(ps) == 1:
        return ps[0]
    return None


def string_tests(f):
    """Yield (block, literal, true_target, false_target) for every `x == "literal"` /
    `x.as_str() == "literal"` comparison that is branched on (String/str PartialEq::eq)."""
    for b, t in f.calls():
        c = callee(t) or ""
        if not (c.endswith("::eq") or c.endswith("::ne")):
            continue
        lits = [str_of(f, a) for a in t["args"]]
        lit = next((x for x in lits if x is not None), None)
        if lit is None:
            continue
        nb = t.get("target")
        if nb is None:
            continue
        tt = f.blocks[nb]["term"]
        dest = t["dest"]["local"]
        if tt["k"] == "switch" and op_local(tt["discr"]) == dest:
            f_t = dict((v, bb) for v, bb in tt["targets"]).get(0)
            t_t = tt["otherwise"]
            if c.endswith("::ne"):
                t_t, f_t = f_t, t_t
            yield b, lit, t_t, f_t


def dominated_region(f, entry):
    """Blocks dominated by `entry` (the part of the CFG only reachable through it)."""
    dom = f.dominators()
    return {b for b in f.reachable(entry) if b in dom and entry in dom[b]}


def aggregates(f, blocks=None, adt_suffix=None):
    """Yield (block, idx, stmt, adt, variant) for ADT aggregate constructions."""
    for b, i, s in f.stmts(blocks):
        if s["k"] == "assign" and s["rv"]["k"] == "aggregate" and s["rv"]["kind"]["k"] == "adt":
            adt = norm(s["rv"]["kind"]["adt"])
            if adt_suffix is None or adt == adt_suffix or adt.endswith("::" + adt_suffix):
                yield b, i, s, adt, s["rv"]["kind"]["variant"]



def trace_access(f, o, depth=16):
    """Like trace_place but structured: (root local, [field index / variant name ...])."""
    path = []
    for _ in range(depth):
        p = op_place(o)
        if p is None:
            return (None, path)
        ds = defs_of(f).get(p["local"], [])
        nd = [e for e in p["proj"] if e["k"] != "deref"]
        if len(nd) == 1 and nd[0]["k"] == "field" and len(ds) == 1 and ds[0][0] == "stmt" \
                and ds[0][3]["rv"]["k"] == "aggregate" and ds[0][3]["rv"]["kind"]["k"] == "tuple":
            o = ds[0][3]["rv"]["ops"][nd[0]["i"]]
            continue
        if nd:
            break
        if len(ds) != 1 or ds[0][0] != "stmt":
            break
        rv = ds[0][3]["rv"]
        if rv["k"] == "use":
            o = rv["op"]
        elif rv["k"] == "ref":
            o = {"k": "copy", "place": rv["place"]}
        elif rv["k"] == "cast" and op_place(rv["op"]) is not None:
            # raw-pointer plumbing of a Box deref: `_b.0.pointer as *const T` -> treat as `*_b`
            pl = op_place(rv["op"])
            if pl["proj"] and "std::boxed::Box<" in f.local_ty(pl["local"]):
                o = {"k": "copy", "place": {"local": pl["local"], "proj": []}}
            else:
                o = rv["op"]
        else:
            break
    p = op_place(o)
    for e in p["proj"]:
        if e["k"] == "field":
            path.append(e["i"])
        elif e["k"] == "downcast":
            path.append(e.get("variant"))
        elif e["k"] == "index":
            c = trace_const(f, {"k": "copy", "place": {"local": e["local"], "proj": []}})
            path.append(("idx", c.get("val") if c else None))
    # continue tracing from the root local when it is itself a unique copy of a projected place
    root = p["local"]
    ds = defs_of(f).get(root, [])
    if len(ds) == 1 and ds[0][0] == "stmt" and ds[0][3]["rv"]["k"] in ("use", "ref", "cast") and depth > 1:
        rv = ds[0][3]["rv"]
        if rv["k"] == "cast":
            pl = op_place(rv["op"])
            if pl is not None and pl["proj"] and "std::boxed::Box<" in f.local_ty(pl["local"]):
                inner = {"k": "copy", "place": {"local": pl["local"], "proj": []}}
            else:
                inner = rv["op"]
        else:
            inner = rv["op"] if rv["k"] == "use" else {"k": "copy", "place": rv["place"]}
        if op_place(inner) is not None:
            r2, p2 = trace_access(f, inner, depth - 1)
            if r2 is not None:
                return (r2, p2 + path)
    return (root, path)


def tls_key(f, t):
    """the thread-local static a `KEY.with(..)` call accesses (path of the static), or None"""
    c = trace_const(f, t["args"][0]) if t.get("args") else None
    if c is None:
        return None
    pb = c.get("promoted_body")
    if pb:
        # `&KEY` is a promoted constant of the accessing function: the key is the static it refers to
        for blk in pb.get("blocks", []):
            for st in blk.get("stmts", []):
                rv = st.get("rv") or {}
                op = rv.get("op") if rv.get("k") == "use" else None
                if op and op.get("k") == "const" and (op["c"].get("uneval") or op["c"].get("text")):
                    return str(op["c"].get("uneval") or op["c"].get("text"))
    return str(c.get("def") or c.get("uneval") or c.get("text") or c.get("val") or "") or None
