"""How Rust's std prints a binary32 / binary64 number with `{}` (Display), `{:?}` (Debug) and `{:e}` (LowerExp) when no width, precision
or flag is given: the shortest decimal digits that read back as the same number, laid out by the rules of core::fmt::float."""
import math
import struct


def f32(v):
    try:
        return struct.unpack("f", struct.pack("f", float(v)))[0]
    except OverflowError:
        return math.copysign(float("inf"), v)


def shortest(x, bits=32):
    """(digits, exp10): x = 0.d1d2...dn * 10^exp10 with the fewest digits that read back as x in its own precision"""
    x = abs(x)
    for n in range(1, 18):
        s = "%.*e" % (n - 1, x)
        back = f32(float(s)) if bits == 32 else float(s)
        if back == x:
            mant, e = s.split("e")
            digits = mant.replace(".", "").rstrip("0") or "0"
            return digits, int(e) + 1
    s = repr(x)
    return None


def _decimal(digits, exp10, min_frac):
    if exp10 <= 0:
        txt = "0." + "0" * (-exp10) + digits
    elif exp10 >= len(digits):
        txt = digits + "0" * (exp10 - len(digits))
        if min_frac:
            txt += "." + "0" * min_frac
    else:
        txt = digits[:exp10] + "." + digits[exp10:]
    if "." in txt:
        frac = len(txt.split(".")[1])
        if frac < min_frac:
            txt += "0" * (min_frac - frac)
    return txt


def _exp(digits, exp10):
    m = digits[0] + ("." + digits[1:] if len(digits) > 1 else "")
    return "%se%d" % (m, exp10 - 1)


def fmt(x, kind="display", bits=32):
    """text of `format!("{}", x)` / `{:?}` / `{:e}`; None when not known"""
    if x != x:
        return "NaN"
    if x in (float("inf"), float("-inf")):
        return "inf" if x > 0 else "-inf"
    sign = "-" if math.copysign(1.0, x) < 0 else ""
    if x == 0:
        return sign + {"display": "0", "debug": "0.0", "lower_exp": "0e0"}.get(kind, "0")
    sd = shortest(x, bits)
    if sd is None:
        return None
    digits, exp10 = sd
    a = abs(x)
    if kind == "display":
        return sign + _decimal(digits, exp10, 0)
    if kind == "debug":
        large, small = (f32(1e16), f32(1e-4)) if bits == 32 else (1e16, 1e-4)     # (the thresholds are constants of the number's own type)
        if a >= large or a < small:
            return sign + _exp(digits, exp10)
        return sign + _decimal(digits, exp10, 1)
    if kind == "lower_exp":
        return sign + _exp(digits, exp10)
    return None
