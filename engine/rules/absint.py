"""Decision-table extraction: evaluate a *loop-free* MIR fragment over a finite abstract domain.

Values are Python ints / bools / str (chars as 1-char str are converted to code points),
enum values are Enum(variant_index, [fields]), tuples are lists, UNKNOWN is opaque.
References are transparent (a deref is the identity).  Calls are answered by the caller-supplied
oracle (e.g. `SmallVec::len` -> the abstract length); an unanswered call yields UNKNOWN.
The walk stops at a stop block, at a return, or when control depends on UNKNOWN (-> raises Stuck).
Any block visited twice raises Loop: this is not an interpreter for programs, only for the
branch structure of straight-line match/if code.
"""
from . import mir


class Unknown:
    def __repr__(self):
        return "?"


UNKNOWN = Unknown()


class Enum:
    def __init__(self, variant, fields=()):
        self.variant = variant
        self.fields = list(fields)

    def __repr__(self):
        return "Enum(%s,%s)" % (self.variant, self.fields)


class Closure(list):
    """a closure value: behaves as the list of its captures (field i = capture i), remembers which body it is"""
    def __init__(self, name, captures):
        list.__init__(self, captures)
        self.fn = name


class Stuck(Exception):
    pass


class Loop(Exception):
    pass


MASK = {"i32": 32, "u32": 32, "usize": 64, "isize": 64, "u8": 8, "i64": 64, "u64": 64, "char": 32, "i8": 8,
        "u16": 16, "i16": 16}


def _box_internal(e):
    """`*boxed` is lowered to boxed.0 (Unique) .pointer (NonNull) then a raw deref: transparent, like a reference"""
    ty = e.get("ty") or ""
    return e["k"] == "field" and (ty.startswith("std::ptr::Unique<") or ty.startswith("std::ptr::NonNull<") or ty.startswith("*const ")
                                  or ty.startswith("*mut "))


def read_place(env, p):
    if p["local"] not in env:
        return UNKNOWN
    v = env[p["local"]]
    for e in p["proj"]:
        k = e["k"]
        if _box_internal(e):
            continue
        if v is UNKNOWN:
            return UNKNOWN
        if k == "deref":
            if isinstance(v, Ptr):
                v = v.get()
            continue
        if k == "downcast":
            if isinstance(v, Enum) and v.variant != e["i"]:
                return UNKNOWN
            continue
        if k == "field":
            if isinstance(v, Enum):
                v = v.fields[e["i"]] if e["i"] < len(v.fields) else UNKNOWN
            elif isinstance(v, (list, tuple)):
                v = v[e["i"]] if e["i"] < len(v) else UNKNOWN
            elif hasattr(v, "field_view"):
                v = v.field_view(e)             # an opaque token of a client table that knows some of its fields
            else:
                return UNKNOWN
        elif k == "const_index":
            if isinstance(v, (list, tuple)) and e["offset"] < len(v):
                v = v[e["offset"]]
            else:
                return UNKNOWN
        elif k == "index":
            iv = env.get(e["local"], UNKNOWN)
            if isinstance(v, (list, tuple)) and isinstance(iv, int) and not isinstance(iv, bool) and iv < len(v):
                v = v[iv]
            else:
                return UNKNOWN
        else:
            return UNKNOWN
    return v


class Ptr:
    """a reference to a place holding a scalar (containers are aliased by object identity instead)"""
    def __init__(self, env, place):
        self.env, self.place = env, place

    def get(self):
        return read_place(self.env, self.place)

    def set(self, v):
        write_place(self.env, self.place, v)

    def __repr__(self):
        return "&%r" % (self.get(),)


POINTERS = False


def deref(v):
    n = 0
    while isinstance(v, Ptr) and n < 8:
        v = v.get()
        n += 1
    return v


SLOT_OF = {}            # id(element object) -> (list, index) for elements handed out by iter_mut() (set by the machine)
SLOT_PTR = [None]       # constructor of a slot pointer (the machine's ListSlot)


def become(obj, nv):
    """overwrite the object a reference points to, in place (so that every alias sees it)"""
    if isinstance(obj, Enum) and isinstance(nv, Enum):
        obj.variant, obj.fields = nv.variant, list(nv.fields)
        for k in ("name", "adt"):
            if hasattr(nv, k):
                setattr(obj, k, getattr(nv, k))
            elif hasattr(obj, k):
                delattr(obj, k)
        return True
    if isinstance(obj, list) and isinstance(nv, list) and type(obj) is list and type(nv) is list:
        obj[:] = nv
        return True
    return False


def write_place(env, p, val):
    """Write through deref / field / constant-or-local index projections into nested lists / Enum fields."""
    loc = p["local"]
    get = lambda: env.get(loc, UNKNOWN)

    def set_(v):
        env[loc] = v
    for e in p["proj"]:
        k = e["k"]
        if k == "downcast" or _box_internal(e):
            continue
        if k == "deref":
            v = get()
            if isinstance(v, Ptr):
                get, set_ = v.get, v.set
            elif isinstance(v, (Enum, list)):
                prev = set_

                def set_(nv, obj=v, prev=prev):
                    if not become(obj, nv):
                        # the object cannot take the new value's place (an opaque value written over a structured one): if it is an
                        # element handed out by iter_mut(), the write goes to its slot and the reference now denotes the slot
                        so = SLOT_OF.get(id(obj))
                        if so is not None and so[1] < len(so[0]) and so[0][so[1]] is obj:
                            so[0][so[1]] = nv
                            prev(SLOT_PTR[0](so[0], so[1]) if SLOT_PTR[0] is not None else nv)
                        else:
                            prev(nv)
                get = lambda obj=v: obj
            continue
        if k == "field":
            i = e["i"]
        elif k == "index":
            i = env.get(e["local"], UNKNOWN)
            if not isinstance(i, int) or isinstance(i, bool):
                set_(UNKNOWN)
                return
        elif k == "const_index":
            i = e["offset"]
        else:
            set_(UNKNOWN)
            return
        cur = get()
        if cur is UNKNOWN or cur is None:
            cur = []
            set_(cur)
        cont = cur.fields if isinstance(cur, Enum) else cur
        if not isinstance(cont, list):
            set_(UNKNOWN)
            return
        while len(cont) <= i:
            cont.append(UNKNOWN)
        get = lambda cont=cont, i=i: cont[i]

        def set_(v, cont=cont, i=i):
            cont[i] = v
    set_(val)


CUR_F = [None]
CUR_B = [None]          # block being evaluated (for hooks that want to know which terminator a value feeds)


def _place_ty(p):
    for e in reversed(p["proj"]):
        if e["k"] == "field":
            return e.get("ty") or ""
        if e["k"] in ("deref", "index", "const_index", "downcast"):
            return ""
    f = CUR_F[0]
    try:
        return (f.local_ty(p["local"]) or "") if f is not None else ""
    except Exception:
        return ""


def operand(env, o):
    if o["k"] in ("copy", "move"):
        v = read_place(env, o["place"])
        if o["k"] == "copy" and type(v) is list:
            ty = _place_ty(o["place"])
            if ty.startswith("[") or ty.startswith("("):
                return list(v)          # a by-value copy of an array / tuple must not alias the original
        return v
    if o["k"] == "const":
        c = o["c"]
        v = c.get("val")
        if v is None and c.get("promoted_body") is not None:
            pv = _promoted(c)
            if pv is not UNKNOWN:
                return pv
        if v is None and c.get("promoted_strs") and len(c["promoted_strs"]) == 1 and c.get("ty", "").startswith("&"):
            return c["promoted_strs"][0]
        if isinstance(v, str) and c.get("ty") == "char":
            return ord(v)
        if v is not None:
            return v
        if "fn" in c and FN_CONST is not None:
            return FN_CONST(c)              # a function item used as a value (`&mut Self::helper`, `.map(helper)`)
        return UNKNOWN
    return UNKNOWN


FN_CONST = None         # client hook: abstract value of a function-item constant
_PROMOTED = {}


def _promoted(c):
    """value of a promoted constant (`&(0, false)`, `&[..]`): evaluate its little MIR body"""
    key = c.get("text")
    if key in _PROMOTED:
        return _PROMOTED[key]
    v = UNKNOWN
    try:
        pf = mir.Func({"path": "promoted", "raw": "promoted", "kind": "Promoted", "vis": "Private", "span": "", "mir": c["promoted_body"]}, "lib")
        kind, b, e2 = run_fragment(pf, 0, {}, oracle=lambda *x: None, max_visits=1)
        v = deref(e2.get(0, UNKNOWN))
    except Exception:
        v = UNKNOWN
    _PROMOTED[key] = v
    return v


def to_int(v):
    if isinstance(v, bool):
        return int(v)
    return v


CUR_S = [None]          # the statement being evaluated (None while a terminator is evaluated)


def in_assert_condition():
    """The comparison being evaluated computes (part of) the condition of the compiler-inserted assertion that ends the current
    block — an overflow / divide-by-zero test —, as opposed to a comparison of the program that merely shares the block."""
    f, b, s = CUR_F[0], CUR_B[0], CUR_S[0]
    if f is None or b is None:
        return False
    term = f.blocks[b]["term"]
    if term.get("k") != "assert":
        return False
    if s is None:
        return True
    from . import mir as _mir
    need = {_mir.op_local(term["cond"])} if term.get("cond") else set()
    for st in reversed(f.blocks[b]["stmts"]):
        if st["k"] != "assign" or st["place"]["local"] not in need:
            continue
        if st is s:
            return True
        for pl in _mir.rv_places(st["rv"]):
            need.add(pl["local"])
    return False


SYM_COMPARE = None      # client hook deciding a comparison of symbolic integers (op, a, b) -> bool


class Sym:
    """a symbolic integer: a named unknown, or an operator applied to symbolic / concrete operands"""
    def __init__(self, op, *args):
        self.op, self.args = op, args

    def __repr__(self):
        if not self.args:
            return str(self.op)
        return "(%s %s)" % (self.op, " ".join(repr(a) for a in self.args))

    def key(self):
        return repr(self)


def binop(op, a, b, ty=None):
    if isinstance(a, Sym) or isinstance(b, Sym):
        if a is UNKNOWN or b is UNKNOWN:
            return UNKNOWN
        base = op.replace("WithOverflow", "").replace("Unchecked", "")
        if base in ("Lt", "Le", "Gt", "Ge", "Eq", "Ne") and SYM_COMPARE is not None:
            return SYM_COMPARE(base.lower(), a, b)
        r = Sym(base, a, b)
        return [r, False] if op.endswith("WithOverflow") else r
    if a is UNKNOWN or b is UNKNOWN:
        return UNKNOWN
    if isinstance(a, (Enum, list)) or isinstance(b, (Enum, list)):
        return UNKNOWN
    a, b = to_int(a), to_int(b)
    base = op.replace("WithOverflow", "").replace("Unchecked", "")
    try:
        if base == "Add":
            r = a + b
        elif base == "Sub":
            r = a - b
        elif base == "Mul":
            r = a * b
        elif base == "Div":
            r = int(a / b) if b != 0 else UNKNOWN
        elif base == "Rem":
            r = a - b * int(a / b) if b != 0 else UNKNOWN
        elif base == "BitAnd":
            r = a & b
        elif base == "BitOr":
            r = a | b
        elif base == "BitXor":
            r = a ^ b
        elif base == "Lt":
            return a < b
        elif base == "Le":
            return a <= b
        elif base == "Gt":
            return a > b
        elif base == "Ge":
            return a >= b
        elif base == "Eq":
            return a == b
        elif base == "Ne":
            return a != b
        else:
            return UNKNOWN
    except Exception:
        return UNKNOWN
    if op.endswith("WithOverflow"):
        return [r, False]
    return r


def rvalue(env, rv):
    k = rv["k"]
    if k == "use":
        return operand(env, rv["op"])
    if k == "ref" or k == "rawptr":
        pl_ = rv["place"]
        if POINTERS and pl_.get("proj") and all(e_["k"] == "deref" for e_ in pl_["proj"]) and isinstance(env.get(pl_["local"]), Ptr):
            return env[pl_["local"]]                   # a reborrow `&mut *p` of a pointer is that pointer
        v = read_place(env, rv["place"])
        if POINTERS and (v is UNKNOWN or isinstance(v, (int, bool, str)) or v is None) and not isinstance(v, Ptr):
            return Ptr(env, rv["place"])
        if POINTERS and rv.get("mut") and rv["place"].get("proj") and rv["place"]["proj"][-1]["k"] == "field" and \
                not isinstance(v, (Ptr, Enum, list, tuple)) and \
                type(v).__name__ in ("T", "Tok", "Val", "V", "Frame"):
            # `&mut x.field` where the field holds an opaque token of a client table: the place can be overwritten (mem::swap / replace)
            return Ptr(env, rv["place"])
        return v
    if k == "cast":
        v = operand(env, rv["op"])
        if "dyn std::fmt::Display" in str(rv.get("ty", "")) and str(rv.get("from_ty", "")).replace("&", "").replace("mut ", "").strip() == "char":
            # a character handed on as `&dyn Display`: all that can be done with it is to print it, and it prints as the one-character
            # text (characters and integers are the same abstract value, the static type is what tells them apart)
            dv = deref(v)
            if isinstance(dv, int) and not isinstance(dv, bool) and 0 <= dv < 0x110000:
                return chr(dv)
        return v
    if k == "binop":
        return binop(rv["op"], deref(operand(env, rv["l"])), deref(operand(env, rv["r"])))
    if k == "unop":
        v = deref(operand(env, rv["operand"]))
        if v is UNKNOWN:
            return UNKNOWN
        if rv["op"] == "Not":
            return (not v) if isinstance(v, bool) else UNKNOWN
        if rv["op"] == "PtrMetadata":
            # the length of a slice / str behind a fat reference (`match xs { [] => .., [x] => .. }`, `xs.len()` inlined)
            if isinstance(v, list) and ("[" in str(rv.get("oty", "")) or rv.get("oty") is None):
                return len(v)
            if isinstance(v, str) and "str" in str(rv.get("oty", "")):
                return len(v.encode("utf-8"))
            return UNKNOWN
        if rv["op"] == "Neg":
            if isinstance(v, Sym):
                return Sym("Neg", v)
            return -v if isinstance(v, int) else UNKNOWN
        return UNKNOWN
    if k == "discriminant":
        v = read_place(env, rv["place"])
        if isinstance(v, Enum):
            return v.variant
        if isinstance(v, bool):
            return int(v)
        return UNKNOWN
    if k == "aggregate":
        kd = rv["kind"]
        vals = [operand(env, o) for o in rv["ops"]]
        if kd["k"] == "adt":
            e = Enum(kd["i"], vals)
            e.adt = mir.norm(kd["adt"])
            e.name = kd["variant"]
            return e
        if kd["k"] == "closure":
            return Closure(mir.norm(kd["def"]), vals)
        return vals
    return UNKNOWN


def run_fragment(f, start, env, stops=(), oracle=None, max_blocks=400, on_block=None, stuck_ok=False, max_visits=1,
                 on_store=None):
    """Walk from `start`; returns ('stop', block, env) | ('return', block, env) | ('diverge', block, env)
    | ('unreachable', block, env)."""
    visited = {}
    b = start
    stops = set(stops)
    prev_f = CUR_F[0]
    CUR_F[0] = f
    try:
        return _run_fragment(f, b, env, stops, oracle, max_blocks, on_block, stuck_ok, max_visits, on_store, visited)
    finally:
        CUR_F[0] = prev_f


def _run_fragment(f, b, env, stops, oracle, max_blocks, on_block, stuck_ok, max_visits, on_store, visited):
    n = 0
    while True:
        if b in stops:
            return ("stop", b, env)
        if visited.get(b, 0) >= max_visits:
            raise Loop("block %d revisited" % b)
        visited[b] = visited.get(b, 0) + 1
        n += 1
        if n > max_blocks:
            raise Loop("fragment too long")
        if on_block:
            on_block(b, env)
        blk = f.blocks[b]
        CUR_B[0] = b
        for s in blk["stmts"]:
            if s["k"] == "assign":
                CUR_S[0] = s
                val = rvalue(env, s["rv"])
                CUR_S[0] = None
                if on_store is not None and any(e["k"] == "deref" for e in s["place"]["proj"]):
                    # a store through a reference: tell the client which abstract object is written
                    on_store(env.get(s["place"]["local"], UNKNOWN), s["place"], val, b)
                write_place(env, s["place"], val)
        t = blk["term"]
        k = t["k"]
        if k == "goto":
            b = t["target"]
        elif k == "switch":
            v = deref(operand(env, t["discr"]))
            if (v is UNKNOWN or isinstance(v, (Enum, list))) and stuck_ok:
                return ("stuck", b, env)
            if v is UNKNOWN or isinstance(v, (Enum, list)):
                raise Stuck("control depends on an unknown value at bb%d of %s" % (b, f.name))
            if isinstance(v, Sym) and SYM_COMPARE is not None:
                # a match on a symbolic integer: each arm is a test the client decides
                nxt = t["otherwise"]
                for val, bb in t["targets"]:
                    if SYM_COMPARE("eq", v, val):
                        nxt = bb
                        break
                b = nxt
                continue
            v = to_int(v)
            nxt = t["otherwise"]
            for val, bb in t["targets"]:
                if val == v or (val >= 2 ** 63 and isinstance(v, int) and v < 0 and (val - 2 ** 128 == v or val - 2 ** 64 == v or val - 2 ** 32 == v)) or \
                        (isinstance(v, int) and v < 0 and t.get("dty") in ("i8", "i16", "i32", "i64", "isize", "i128") and
                         val == v + 2 ** {"i8": 8, "i16": 16, "i32": 32, "i64": 64, "isize": 64, "i128": 128}[t["dty"]]):
                    nxt = bb
                    break
            b = nxt
        elif k == "call":
            r = oracle(f, b, t, env) if oracle else None
            if isinstance(r, tuple) and r and r[0] == "__stop__":
                return ("call", b, env)
            write_place(env, t["dest"], UNKNOWN if r is None else r)
            if t.get("target") is None:
                return ("diverge", b, env)
            b = t["target"]
        elif k == "assert":
            b = t["target"]
        elif k == "drop":
            b = t["target"]
        elif k == "return":
            return ("return", b, env)
        elif k == "unreachable":
            return ("unreachable", b, env)
        else:
            return ("diverge", b, env)
