"""Decision-table extraction: evaluate a *loop-free* MIR fragment over a finite abstract domain.

Values are Python ints / bools / str (chars as 1-char str are converted to code points),
enum values are Enum(variant_index, [fields]), tuples are lists, UNKNOWN is opaque.
References are transparent (a deref is the identity).  Calls are answered by the caller-supplied
oracle (e.g. `SmallVec::len` -> the abstract length); an unanswered call yields UNKNOWN.
The walk stops at a stop block, at a return, or when control depends on UNKNOWN (-> raises Stuck).
Any block visited twice raises Loop: this is not an interpreter for programs, only for the
branch structure of straight-line match/if code.
"""
from . import mir


class Unknown:
    def __repr__(self):
        return "?"


UNKNOWN = Unknown()


class Enum:
    def __init__(self, variant, fields=()):
        self.variant = variant
        self.fields = list(fields)

    def __repr__(self):
        return "Enum(%s,%s)" % (self.variant, self.fields)


class Stuck(Exception):
    pass


class Loop(Exception):
    pass


MASK = {"i32": 32, "u32": 32, "usize": 64, "isize": 64, "u8": 8, "i64": 64, "u64": 64, "char": 32, "i8": 8,
        "u16": 16, "i16": 16}


def read_place(env, p):
    if p["local"] not in env:
        return UNKNOWN
    v = env[p["local"]]
    for e in p["proj"]:
        k = e["k"]
        if v is UNKNOWN:
            return UNKNOWN
        if k == "deref":
            continue
        if k == "downcast":
            if isinstance(v, Enum) and v.variant != e["i"]:
                return UNKNOWN
            continue
        if k == "field":
            if isinstance(v, Enum):
                v = v.fields[e["i"]] if e["i"] < len(v.fields) else UNKNOWN
            elif isinstance(v, (list, tuple)):
                v = v[e["i"]] if e["i"] < len(v) else UNKNOWN
            else:
                return UNKNOWN
        elif k == "const_index":
            if isinstance(v, (list, tuple)) and e["offset"] < len(v):
                v = v[e["offset"]]
            else:
                return UNKNOWN
        elif k == "index":
            iv = env.get(e["local"], UNKNOWN)
            if isinstance(v, (list, tuple)) and isinstance(iv, int) and not isinstance(iv, bool) and iv < len(v):
                v = v[iv]
            else:
                return UNKNOWN
        else:
            return UNKNOWN
    return v


def write_place(env, p, val):
    """Write through field / constant-or-local index projections into nested lists / Enum fields."""
    steps = []
    for e in p["proj"]:
        k = e["k"]
        if k in ("deref", "downcast"):
            continue
        if k == "field":
            steps.append(e["i"])
        elif k == "index":
            iv = env.get(e["local"], UNKNOWN)
            if not isinstance(iv, int) or isinstance(iv, bool):
                env[p["local"]] = UNKNOWN
                return
            steps.append(iv)
        elif k == "const_index":
            steps.append(e["offset"])
        else:
            env[p["local"]] = UNKNOWN
            return
    if not steps:
        env[p["local"]] = val
        return
    base = env.get(p["local"], UNKNOWN)
    if base is UNKNOWN:
        base = []
        env[p["local"]] = base
    cur = base
    for n, i in enumerate(steps):
        cont = cur.fields if isinstance(cur, Enum) else cur
        if not isinstance(cont, list):
            env[p["local"]] = UNKNOWN
            return
        while len(cont) <= i:
            cont.append(UNKNOWN)
        if n == len(steps) - 1:
            cont[i] = val
        else:
            if cont[i] is UNKNOWN:
                cont[i] = []
            cur = cont[i]


def operand(env, o):
    if o["k"] in ("copy", "move"):
        return read_place(env, o["place"])
    if o["k"] == "const":
        c = o["c"]
        v = c.get("val")
        if isinstance(v, str) and c.get("ty") == "char":
            return ord(v)
        if v is not None:
            return v
        return UNKNOWN
    return UNKNOWN


def to_int(v):
    if isinstance(v, bool):
        return int(v)
    return v


def binop(op, a, b, ty=None):
    if a is UNKNOWN or b is UNKNOWN:
        return UNKNOWN
    if isinstance(a, (Enum, list)) or isinstance(b, (Enum, list)):
        return UNKNOWN
    a, b = to_int(a), to_int(b)
    base = op.replace("WithOverflow", "").replace("Unchecked", "")
    try:
        if base == "Add":
            r = a + b
        elif base == "Sub":
            r = a - b
        elif base == "Mul":
            r = a * b
        elif base == "Div":
            r = int(a / b) if b != 0 else UNKNOWN
        elif base == "Rem":
            r = a - b * int(a / b) if b != 0 else UNKNOWN
        elif base == "BitAnd":
            r = a & b
        elif base == "BitOr":
            r = a | b
        elif base == "BitXor":
            r = a ^ b
        elif base == "Lt":
            return a < b
        elif base == "Le":
            return a <= b
        elif base == "Gt":
            return a > b
        elif base == "Ge":
            return a >= b
        elif base == "Eq":
            return a == b
        elif base == "Ne":
            return a != b
        else:
            return UNKNOWN
    except Exception:
        return UNKNOWN
    if op.endswith("WithOverflow"):
        return [r, False]
    return r


def rvalue(env, rv):
    k = rv["k"]
    if k == "use":
        return operand(env, rv["op"])
    if k == "ref" or k == "rawptr":
        return read_place(env, rv["place"])
    if k == "cast":
        return operand(env, rv["op"])
    if k == "binop":
        return binop(rv["op"], operand(env, rv["l"]), operand(env, rv["r"]))
    if k == "unop":
        v = operand(env, rv["operand"])
        if v is UNKNOWN:
            return UNKNOWN
        if rv["op"] == "Not":
            return (not v) if isinstance(v, bool) else UNKNOWN
        if rv["op"] == "Neg":
            return -v if isinstance(v, int) else UNKNOWN
        return UNKNOWN
    if k == "discriminant":
        v = read_place(env, rv["place"])
        if isinstance(v, Enum):
            return v.variant
        if isinstance(v, bool):
            return int(v)
        return UNKNOWN
    if k == "aggregate":
        kd = rv["kind"]
        vals = [operand(env, o) for o in rv["ops"]]
        if kd["k"] == "adt":
            e = Enum(kd["i"], vals)
            e.adt = mir.norm(kd["adt"])
            e.name = kd["variant"]
            return e
        return vals
    return UNKNOWN


def run_fragment(f, start, env, stops=(), oracle=None, max_blocks=400, on_block=None, stuck_ok=False, max_visits=1,
                 on_store=None):
    """Walk from `start`; returns ('stop', block, env) | ('return', block, env) | ('diverge', block, env)
    | ('unreachable', block, env)."""
    visited = {}
    b = start
    stops = set(stops)
    n = 0
    while True:
        if b in stops:
            return ("stop", b, env)
        if visited.get(b, 0) >= max_visits:
            raise Loop("block %d revisited" % b)
        visited[b] = visited.get(b, 0) + 1
        n += 1
        if n > max_blocks:
            raise Loop("fragment too long")
        if on_block:
            on_block(b, env)
        blk = f.blocks[b]
        for s in blk["stmts"]:
            if s["k"] == "assign":
                val = rvalue(env, s["rv"])
                if on_store is not None and any(e["k"] == "deref" for e in s["place"]["proj"]):
                    # a store through a reference: tell the client which abstract object is written
                    on_store(env.get(s["place"]["local"], UNKNOWN), s["place"], val, b)
                write_place(env, s["place"], val)
        t = blk["term"]
        k = t["k"]
        if k == "goto":
            b = t["target"]
        elif k == "switch":
            v = operand(env, t["discr"])
            if (v is UNKNOWN or isinstance(v, (Enum, list))) and stuck_ok:
                return ("stuck", b, env)
            if v is UNKNOWN or isinstance(v, (Enum, list)):
                raise Stuck("control depends on an unknown value at bb%d of %s" % (b, f.name))
            v = to_int(v)
            nxt = t["otherwise"]
            for val, bb in t["targets"]:
                if val == v or (val >= 2 ** 63 and isinstance(v, int) and v < 0 and (val - 2 ** 128 == v or val - 2 ** 64 == v or val - 2 ** 32 == v)):
                    nxt = bb
                    break
            b = nxt
        elif k == "call":
            r = oracle(f, b, t, env) if oracle else None
            if isinstance(r, tuple) and r and r[0] == "__stop__":
                return ("call", b, env)
            write_place(env, t["dest"], UNKNOWN if r is None else r)
            if t.get("target") is None:
                return ("diverge", b, env)
            b = t["target"]
        elif k == "assert":
            b = t["target"]
        elif k == "drop":
            b = t["target"]
        elif k == "return":
            return ("return", b, env)
        elif k == "unreachable":
            return ("unreachable", b, env)
        else:
            return ("diverge", b, env)
