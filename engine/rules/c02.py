"""C02 — Tail calls run in bounded space (structural part)."""
from . import mir, absint
from .mir import callee, callee_matches, Prov
from .ctx import where_of

EXPLANATION = (
    'Every structural reason for which a tail call would consume Rust stack: (tail-returns) nested tail `if` '
    'table — for every nesting of conditionals to depth 2 (thorough: 3) and every vector of test outcomes, a call '
    'in tail position comes back from the tail evaluator as a pending TailCall carrying its operator, operands '
    'and environment, and nothing but the tests is evaluated; (trampoline, iteration-is-application) decision '
    'tables of apply_procedure: the pending call is evaluated exactly once in the environment it carries, the '
    'next turn applies the procedure it evaluated to, to the evaluated arguments, in a fresh frame under THAT '
    "closure's environment, a builtin reached by a tail call is applied to the evaluated arguments, a self tail "
    'call gets a frame of its own whatever the reference count of the finished frame, and apply_procedure is '
    'never re-entered for a pending call; (no-stack-cycle) in the resolved call graph with builtin bodies as '
    'indirect-call targets, apply_procedure lies on no cycle once the edges into eval_expression (non-tail sub- '
    'expressions) are removed; (frames-dropped) the trampoline loop accumulates nothing per iteration; (derived- '
    'tail) by abstract expansion of grammar.sld, every R7RS tail sub-form of '
    'begin/let/let*/cond/case/and/or/when/unless ends up in a tail position of the core forms. Call leaves '
    'include calls whose operator is itself a call or a conditional; what a run did before it could no longer be '
    'followed counts as evidence.')
NOT_DECIDED = ("measured stack depth and live heap per iteration (run-time quantities); equality of the loop's result "
               "with the bounded iteration.")


def _fresh_each_turn(f, loop, b, t):
    """The container a push / insert in a loop writes to is created inside the loop, on every path to the write: it holds one
    turn's items (the operands of one call), not something kept from turn to turn."""
    root = mir.trace_access(f, t["args"][0])[0] if t.get("args") else None
    if root is None or root <= f.arg_count:
        return False
    dom = f.dominators()
    for d in mir.defs_of(f).get(root, []):
        db = d[1]
        if db in loop and db in dom[b] and db != b:
            # the definition itself is not inside an inner loop that also contains the write (that would be accumulation
            # within the turn only, which is bounded by the call's operand count anyway)
            return True
    return False


INTERP = "interpreter::interpreter::Interpreter::"
EVAL_SCC = ("eval_expression", "apply_procedure", "eval_procedure_call", "apply_scheme_procedure",
            "eval_tail_expression", "eval_owned_tail_expression", "read_literal")


def tail_table(ctx, fb, f, ee, vidx, depth):
    """Abstract evaluation of the tail evaluator on every nesting of `if` (to `depth`) whose leaves are calls or plain
    expressions, for every outcome of the tests: a leaf call must come back as a pending TailCall carrying its own operator,
    operands and the current environment, with nothing but the tests on the path evaluated; a plain leaf is evaluated once.
    The evaluator's own recursion is followed (inlined), so the verdict does not depend on whether it recurses or loops."""
    from . import absint
    from .c01 import Tok, _contains
    name = f.name.rsplit("::", 1)[-1]
    SYM, CALL, COND = vidx["Symbol"], vidx["ProcedureCall"], vidx["Conditional"]
    envtok = Tok("env", "env")

    def sym(tag):
        return [absint.Enum(SYM, [tag]), absint.UNKNOWN]

    def call(tag):
        return [absint.Enum(CALL, [sym("op-" + tag), Tok("args", tag)]), absint.UNKNOWN]

    def tag_of(x):
        if isinstance(x, list) and x and isinstance(x[0], absint.Enum):
            if x[0].variant == SYM:
                return x[0].fields[0]
            if x[0].variant == CALL:
                return "call:" + str(tag_of(x[0].fields[0]))
            if x[0].variant == COND:
                return "if:" + str(tag_of(x[0].fields[0][0]))
        return None

    def shapes(d, pfx):
        """(expression, [(path truths, leaf tag, leaf kind)])"""
        out = [(call(pfx), [({}, pfx, "call")]), (sym(pfx), [({}, pfx, "plain")])]
        if d > 0:
            subs_c = shapes(d - 1, pfx + "c")
            subs_a = shapes(d - 1, pfx + "a")
            for ce, cl in subs_c:
                for ae, al in subs_a[:2] if d > 1 else subs_a:
                    t = "t" + pfx
                    e = [absint.Enum(COND, [[sym(t), ce, absint.Enum(1, [ae])]]), absint.UNKNOWN]
                    leaves = [(dict(tr, **{t: True}), tg, k) for tr, tg, k in cl] + [(dict(tr, **{t: False}), tg, k) for tr, tg, k in al]
                    out.append((e, leaves))
                # one-armed if
                t = "t" + pfx
                e = [absint.Enum(COND, [[sym(t), ce, absint.Enum(0, [])]]), absint.UNKNOWN]
                out.append((e, [(dict(tr, **{t: True}), tg, k) for tr, tg, k in cl] + [({t: False}, None, "void")]))
        return out

    def run(expr, truths, events, budget):
        if budget[0] <= 0:
            raise absint.Loop("recursion budget")
        budget[0] -= 1

        def oracle(ff, bb, tt, env):
            c = callee(tt) or ""
            a0 = absint.operand(env, tt["args"][0]) if tt["args"] else None
            if c == f.name:
                a1 = absint.operand(env, tt["args"][1]) if len(tt["args"]) > 1 else None
                if a1 is not envtok:
                    events.append(("env-changed", tag_of(a0)))
                sub = run(a0, truths, events, budget)
                r = absint.Enum(0, [sub])
                r.name = "Ok"
                return r
            if c == ee.name or c.startswith(INTERP + "eval_") or c == INTERP + "apply_procedure":
                events.append((c.rsplit("::", 1)[-1], tag_of(a0)))
                r = absint.Enum(0, [Tok("value-of", tag_of(a0))])
                r.name = "Ok"
                return r
            if c.endswith("Value::as_boolean"):
                return truths.get(a0.tag, absint.UNKNOWN) if isinstance(a0, Tok) else absint.UNKNOWN
            if c.endswith("std::ops::Try>::branch"):
                return absint.Enum(a0.variant, list(a0.fields)) if isinstance(a0, absint.Enum) else absint.UNKNOWN
            if callee_matches(tt, "std::convert::AsRef>::as_ref", "std::ops::Deref>::deref", "std::borrow::Borrow>::borrow",
                              "<std::rc::Rc as std::clone::Clone>::clone", "extract_data"):
                return a0
            return None
        kind, b, env = absint.run_fragment(f, 0, {1: expr, 2: envtok}, oracle=oracle, max_visits=8)
        res = env.get(0)
        # unwrap Ok(..)
        if isinstance(res, absint.Enum) and getattr(res, "name", None) == "Ok" and res.fields:
            return res.fields[0]
        return res
    n = 0
    bad = {}
    for expr, leaves in shapes(depth, ""):
        for truths, leaf, kind in leaves:
            n += 1
            events = []
            try:
                res = run(expr, truths, events, [40])
            except (absint.Stuck, absint.Loop) as e:
                bad.setdefault("stuck", []).append("%s under %s: %s" % (tag_of(expr), truths, e))
                continue
            tests = sorted(truths)
            evs = [x for x in events]
            want_events = {("eval_expression", t) for t in tests}
            extra = [x for x in evs if x not in want_events and not (kind == "plain" and x == ("eval_expression", leaf))]
            missing = [t for t in tests if ("eval_expression", t) not in evs]
            if kind == "call":
                is_tc = _contains(res, lambda v: isinstance(v, absint.Enum) and getattr(v, "name", None) == "TailCall") or \
                    _contains(res, lambda v: isinstance(v, absint.Enum) and (getattr(v, "adt", "") or "").endswith("TailCall"))
                carries = _contains(res, lambda v: isinstance(v, Tok) and v.kind == "args" and v.tag == leaf) and \
                    _contains(res, lambda v: v is envtok) and \
                    _contains(res, lambda v: isinstance(v, absint.Enum) and v.variant == SYM and v.fields == ["op-" + leaf])
                if extra or not is_tc or not carries:
                    why = ("the call is evaluated on the Rust stack (%s)" % extra) if extra else (
                        "no pending TailCall is returned" if not is_tc else "the pending call does not carry its own operator, operands and the current environment")
                    bad.setdefault("call-leaf", []).append("call `%s` under %s: %s" % (leaf, truths, why))
            elif kind == "plain":
                okv = _contains(res, lambda v: isinstance(v, Tok) and v.kind == "value-of" and v.tag == leaf)
                if extra or not okv or ("eval_expression", leaf) not in evs:
                    bad.setdefault("plain-leaf", []).append("leaf `%s` under %s: evaluations %s result %s" % (leaf, truths, evs, repr(res)[:80]))
            else:
                if extra or not _contains(res, lambda v: isinstance(v, absint.Enum) and getattr(v, "name", None) == "Void"):
                    bad.setdefault("void-leaf", []).append("one-armed if under %s: evaluations %s result %s" % (truths, evs, repr(res)[:80]))
            if missing:
                bad.setdefault("tests", []).append("tests %s not evaluated under %s" % (missing, truths))
    ctx.inst("C02-tail-returns", name + "/if-nesting-table", {"depth": depth, "paths": n, "bad_classes": sorted(bad)})
    # only calls matter for stack behaviour; how plain leaves and tests are evaluated is C01's business (C01-truthiness)
    bad = {k: v for k, v in bad.items() if k in ("call-leaf", "stuck")}
    ctx.oblige(not bad)
    for k, items in sorted(bad.items()):
        ctx.report("C02-tail-returns", "%s/%s" % (name, k), "%d path(s) through nested tail `if`s: e.g. %s" % (len(items), items[0]), where_of(f))
    if n < 20:
        ctx.report("C02-tail-returns", name + "/floor", "only %d paths analysed" % n, where_of(f))


def run(ctx):
    fb = ctx.fb()
    ctx.trust("rustc nightly MIR and callee resolution; indirect calls of builtin bodies are resolved to the functions "
              "registered in the native library tables")
    ee = fb.find(INTERP + "eval_expression")
    ap = fb.find(INTERP + "apply_procedure")
    asp = fb.find(INTERP + "apply_scheme_procedure")
    epc = fb.find(INTERP + "eval_procedure_call")
    vidx = dict((n, i) for i, n in fb.variants("parser::parser::ExpressionBody"))
    scc = {INTERP + n for n in EVAL_SCC}

    # ------------------------------------------------------------------ C02-tail-returns
    ctx.rule("C02-tail-returns", "a call in tail position is returned as a TailCall, not evaluated; conditionals evaluate "
                                 "only their test eagerly")
    n_te = 0
    live = fb.reachable_from([ap.name])
    for name in ("eval_tail_expression", "eval_owned_tail_expression"):
        f = fb.find(INTERP + name, required=(name == "eval_tail_expression"))
        if f is None:
            continue
        if f.name not in live:
            ctx.note("%s is not reachable from apply_procedure (dead code on this tree): not analysed" % name)
            continue
        n_te += 1
        if name == "eval_tail_expression":
            from . import evaltables as _et
            _et.rule_tail_nesting(ctx, "C02-tail-returns", 3 if ctx.tier == "thorough" else 2)
            # ... and form by form, a call with every kind of operator expression (variable, call, conditional, lambda expressions
            # with fixed / rest / both parameters): never evaluated on the Rust stack
            _et.rule_tail_dispatch(ctx, "C02-tail-returns")
        else:
            tail_table(ctx, fb, f, ee, vidx, depth=3 if ctx.tier == "thorough" else 2)
    if n_te < 1:
        ctx.undecided("C02-tail-returns", "floor", "no tail evaluator analysed")
    # the last body form goes to the tail evaluator and what it returns (a value or a pending call) reaches the trampoline
    # unchanged: decided by the `real-body` row of the trampoline table below; shape-bound fallback:
    from . import evaltables
    d_tramp = evaltables.rule_trampoline(ctx, "C02-trampoline", {"rebind", "env"})
    # either arm of a tail `if`: the test once, then the selected arm handed on (a call comes back pending, anything else is
    # evaluated once) — "the loop computes the same result as the equivalent bounded iteration" fails if a test with an effect runs twice
    try:
        evaltables.rule_conditional(ctx, "C02-tail-returns", evaltables.tables(fb)["w"].ete)
    except (mir.AnchorMissing, absint.Stuck, absint.Loop) as e:
        ctx.undecided("C02-tail-returns", "conditional", "the conditional table of the tail evaluator could not be built (%s)" % e)
    def _old_returns():
        d0 = mir.defs_of(asp).get(0, [])
        kinds = sorted({callee(d[2]) if d[0] == "call" else "aggregate/assign" for d in d0})
        ctx.inst("C02-tail-returns", "apply_scheme_procedure/returns", kinds)
        okk = all(k.endswith("eval_tail_expression") or k.endswith("from_residual") for k in kinds) and \
            any(k.endswith("eval_tail_expression") for k in kinds)
        if not okk:
            ctx.report("C02-tail-returns", "apply_scheme_procedure/returns", "apply_scheme_procedure must return the tail "
                       "evaluator's result unchanged (or a propagated error); its result is produced by %s" % kinds, where_of(asp))
    ctx.guarded('C02-tail-returns', d_tramp >= 4, _old_returns)

    # ------------------------------------------------------------------ C02-trampoline
    ctx.rule("C02-trampoline", "the trampoline iterates: a pending tail call re-binds procedure and arguments and loops")
    # (decision table evaluated above: evaltables.rule_trampoline — initial application, pending call evaluated once in the
    # environment it carries, next turn applies the evaluated procedure to the evaluated arguments, no Rust recursion)
    def _old_tramp():
        loops = ap.loops()
        tsw = [x for x in mir.discriminant_switches(ap, "TailExpressionResult")]
        if not loops or not tsw:
            ctx.report("C02-trampoline", "shape", "apply_procedure has no loop / does not match on TailExpressionResult", where_of(ap))
        else:
            head, body = max(loops, key=lambda hb: len(hb[1]))
            sb, place, a, targets, other = tsw[0]
            tci = fb.variant_index("TailExpressionResult", "TailCall")
            tc_t = targets.get(tci, other)
            reg = mir.dominated_region(ap, tc_t)
            calls_in = [callee(t) for _, t in ap.calls(reg)]
            bad = [c for c in calls_in if c in (ap.name, asp.name, ee.name)]
            has_epc = epc.name in calls_in
            reaches_head = head in ap.reachable(tc_t)
            # returns reachable from the arm only through `?`
            rets_direct = mir.paths_avoiding(ap, tc_t, ap.return_blocks(),
                                             [b for b, t in ap.calls(reg) if callee_matches(t, "FromResidual>::from_residual")] + [head])
            ctx.inst("C02-trampoline", "tailcall-arm", {"calls": [c.rsplit("::", 1)[-1] for c in calls_in if c], "reaches_loop_head": reaches_head})
            if bad:
                ctx.report("C02-trampoline", "tailcall-arm/recursion", "the pending tail call is applied by calling %s (Rust "
                           "recursion) instead of looping" % bad, where_of(ap))
            if not has_epc or not reaches_head or rets_direct is not None:
                ctx.report("C02-trampoline", "tailcall-arm/loop", "the TailCall arm does not (evaluate the call, then) go back to "
                           "the loop head (epc=%s, reaches head=%s, returns=%s)" % (has_epc, reaches_head, rets_direct), where_of(ap))
            # re-binding: on the back edge path, the applied-procedure place and the args local are assigned from epc's result
            p = Prov(ap)
            psw = next(iter(mir.discriminant_switches(ap, "values::Procedure")), None)
            P = psw[1]["local"]
            proots = {c for _, c in p.call_roots(P)}
            app = [(b, t) for b, t in ap.calls() if callee(t) == asp.name]
            aroots = {c for _, c in p.call_roots(app[0][1]["args"][4])} if app else set()
            ctx.inst("C02-trampoline", "rebinding", {"procedure_roots": sorted(proots), "args_roots": sorted(aroots)})
            if epc.name not in proots or epc.name not in aroots:
                ctx.report("C02-trampoline", "rebinding", "procedure / arguments of the next iteration do not come from the evaluated "
                           "tail call", where_of(ap))
            for b, t in app:
                if b not in body:
                    ctx.report("C02-trampoline", "apply-outside-loop", "apply_scheme_procedure is called outside the trampoline loop", where_of(ap, t))
            # the environment of the tail call comes from the TailCall, not from apply_procedure's env
            for b, t in ap.calls(reg):
                if callee(t) == epc.name and 3 in p.arg_roots(t["args"][2]):
                    ctx.report("C02-trampoline", "tailcall-env", "the tail call is evaluated in the caller's environment", where_of(ap, t))

            # -------------------------------------------------------------- C02-frames-dropped
            ctx.rule("C02-frames-dropped", "no per-iteration accumulation in the trampoline")
            acc = [callee(t) for b, t in ap.calls(body) if callee_matches(t, "Vec::push", "HashMap::insert", "Extend>::extend",
                                                                          "VecDeque::push_back", "SmallVec::push", "Vec::insert")
                   and not _fresh_each_turn(ap, body, b, t)]
            ctx.inst("C02-frames-dropped", "loop-body", {"blocks": len(body), "accumulating_calls": acc})
            if acc:
                ctx.report("C02-frames-dropped", "accumulates", "the trampoline accumulates per iteration via %s" % acc, where_of(ap))
            for f in (ap, asp):
                for b, i, s in f.stmts():
                    if s["k"] == "assign" and s["place"]["proj"] and any(e["k"] == "field" for e in s["place"]["proj"]) \
                            and s["place"]["local"] <= f.arg_count and "LexicalScope" in str(s["rv"]):
                        ctx.report("C02-frames-dropped", f.name + "/stores-frame", "a frame is stored into a parameter's field", where_of(f, span=s["span"]))
    ctx.guarded('C02-trampoline', d_tramp >= 4, _old_tramp)

    # ------------------------------------------------------------------ C02-frames-dropped (all loops of the trampoline)
    ctx.rule("C02-frames-dropped", "no per-iteration accumulation in the trampoline")
    lb = ap.loop_blocks()
    acc = [callee(t) for b, t in ap.calls(lb) if callee_matches(t, "Vec::push", "HashMap::insert", "Extend>::extend", "HashSet::insert",
                                                                "VecDeque::push_back", "SmallVec::push", "Vec::insert")
           and not _fresh_each_turn(ap, lb, b, t)]
    ctx.inst("C02-frames-dropped", "trampoline-loops", {"blocks": len(lb), "accumulating_calls": acc})
    if acc:
        ctx.report("C02-frames-dropped", "accumulates", "the trampoline accumulates per iteration via %s" % acc, where_of(ap))

    # ------------------------------------------------------------------ C02-heap-cycle
    ctx.rule("C02-heap-cycle", "live heap: a frame must not be kept alive by a procedure it binds (reference-counted environments: a "
                               "frame that binds a procedure closed over that frame is never freed, so every call of a procedure with an "
                               "internal procedure definition leaves its frame behind); bundled library procedures of that kind, and the "
                               "derived forms that expand into calls of them, leak on every use")
    d_cyc, cyc_names = evaltables.rule_frame_cycles(ctx, "C02-heap-cycle")
    if cyc_names:
        ctx.oblige(False)
        ctx.report("C02-heap-cycle", "internal-procedure-definition", "after a procedure with an internal procedure definition has returned, "
                   "its frame still binds %s to a procedure whose environment is that frame, and environments are reference-counted with no "
                   "weak edge: the pair is never freed. A loop whose body has an internal procedure definition grows the live heap with "
                   "the iteration count: (define (f n) (define (g) 1) (if (= n 0) 0 (f (- n 1)))) (f 100000)" % (cyc_names,), where_of(ap))
        _library_heap_cycles(ctx)
    elif d_cyc:
        ctx.oblige(True)

    # ------------------------------------------------------------------ C02-iteration-is-application
    ctx.rule("C02-iteration-is-application", "a turn of the trampoline is an ordinary application: the callee's body runs in a "
             "frame created in that turn as a child of the applied closure's frame, never in a frame carried over from an "
             "earlier turn (necessary for `the loop computes the same result as the bounded iteration`: closures made in "
             "turn i must keep turn i's bindings)")
    d_iter = evaltables.rule_application(ctx, "C02-iteration-is-application", {"frame"})
    # (the operands of the pending call denote what they denote in non-tail position: a variable of the frame named twice)
    evaltables.rule_epc(ctx, "C02-iteration-is-application", operands_row=True)

    def _old_iter():
        from . import frames
        fr = frames.analyse(fb)
        ctx.inst("C02-iteration-is-application", "frame-provenance", {"case": fr.case, "created_in": sorted(fr.makers)})
        ctx.oblige(not fr.problems)
        for key, msg, where in fr.problems:
            ctx.report("C02-iteration-is-application", key, msg, where)
    ctx.guarded("C02-iteration-is-application", d_iter >= 8 and d_tramp >= 4, _old_iter)

    # ------------------------------------------------------------------ C02-no-stack-cycle
    ctx.rule("C02-no-stack-cycle", "the evaluator recurses only through non-tail sub-expressions (edges into eval_expression)")
    g = {k: set(v) for k, v in fb.call_graph("lib").items()}
    bpa = fb.find("values::BuiltinProcedureBody::apply")
    reg_targets = registry_targets(fb)
    g.setdefault(bpa.name, set()).update(reg_targets)
    # remove edges into eval_expression (and read_literal, which cannot apply procedures)
    cut = {ee.name}
    for k in g:
        g[k] = {x for x in g[k] if x not in cut}
    cyc = find_cycle(g, ap.name)
    ctx.inst("C02-no-stack-cycle", "graph", {"nodes": len(g), "builtin_targets": len(reg_targets)})
    if cyc:
        short = [c.rsplit("::", 2)[-2] + "::" + c.rsplit("::", 1)[-1] if c.count("::") > 1 else c for c in cyc]
        # (keyed by what the cycle goes through that matters: the builtin dispatcher and the builtin that re-enters — helper
        # functions extracted from apply_procedure on the way do not make it another cycle)
        essential = [c for i, c in enumerate(cyc) if i in (0, len(cyc) - 1) or c == bpa.name or c in reg_targets]
        key = "->".join(c.rsplit("::", 1)[-1] for c in essential)
        ctx.report("C02-no-stack-cycle", key, "apply_procedure re-enters itself on the Rust stack without passing through "
                   "eval_expression: %s (a procedure applied through this path in tail position consumes stack)" % " -> ".join(short), where_of(ap))
    if len(reg_targets) < 40:
        ctx.undecided("C02-no-stack-cycle", "floor", "only %d builtin targets resolved (expected >= 40)" % len(reg_targets))

    # ------------------------------------------------------------------ C02-derived-tail (Engine C)
    try:
        from scm import derived
        derived.tail_rule(ctx)
    except ImportError:
        ctx.note("Engine C (grammar.sld analysis) not available in this revision: C02-derived-tail not run")
    return EXPLANATION, NOT_DECIDED


def _library_heap_cycles(ctx):
    """bundled library procedures every call of which leaves a frame behind (given that a frame binding a procedure closed over it
    is never freed): procedures whose body — or the body of a procedure they call by name — starts with an internal procedure
    definition; and the derived forms whose expansion calls one of them"""
    try:
        from scm import library, derived, listeval
        from scm.reader import Sym, Dotted
    except ImportError:
        return
    where = "src/interpreter/library/include/scheme/base.sld"
    try:
        w = listeval.World()
    except Exception as e:
        ctx.undecided("C02-heap-cycle", "library", "the bundled library could not be read (%s)" % e, where)
        return

    def is_proc_def(form):
        if not (isinstance(form, list) and len(form) >= 3 and form[0] == Sym("define")):
            return False
        if isinstance(form[1], (list, Dotted)):
            return True
        v = form[2]
        return isinstance(v, list) and bool(v) and v[0] == Sym("lambda")

    def body_of(name):
        v = w.genv.get(name)
        if isinstance(v, tuple) and v and v[0] == "thunk":
            try:
                v = listeval.Eval(w, []).lookup(name, None)
            except Exception:
                return None
        return list(v.body) if isinstance(v, listeval.Closure) else None

    def operators(t, out):
        if isinstance(t, list) and t:
            if t[0] == Sym("quote"):
                return
            if isinstance(t[0], Sym):
                out.add(t[0].name)
            for x in t:
                operators(x, out)

    own, calls = {}, {}
    for name in w.lib.def_order:
        b = body_of(name)
        if b is None:
            continue
        own[name] = [f[1][0].name if isinstance(f[1], list) else (f[1].items[0].name if isinstance(f[1], Dotted) else f[1].name) for f in b if is_proc_def(f)]
        ops = set()
        for f in b:
            operators(f, ops)
        calls[name] = {o for o in ops if o in w.lib.defs and o != name}
    leaking = {n: ("its body defines the internal procedure(s) %s" % own[n]) for n in own if own[n]}
    changed = True
    while changed:
        changed = False
        for n in own:
            if n not in leaking:
                via = sorted(c for c in calls.get(n, ()) if c in leaking)
                if via:
                    leaking[n] = "it calls %s" % via[0]
                    changed = True
    exported = {i for i, _ in w.lib.exports}
    mf = w.mf
    users = {}
    for kw, rules in getattr(mf, "macros", {}).items():
        for r in rules:
            ops = set()
            operators(r.template, ops)
            for n in ops:
                if n in leaking:
                    users.setdefault(n, set()).add(kw)
    ctx.inst("C02-heap-cycle", "library", {"procedures": len(own), "with_internal_procedure_definitions": sorted(n for n in own if own[n])})
    for n in sorted(leaking):
        if n not in exported and n not in users:
            continue
        ctx.report("C02-heap-cycle", "library/" + n, "every call of the library procedure %s leaves a frame behind (%s; such a frame is "
                   "never freed)%s" % (n, leaking[n], (": a loop through the derived form(s) %s, which expand into a call of it, grows the live "
                                                      "heap with the iteration count" % sorted(users[n])) if n in users else ""), where)


def registry_targets(fb):
    """Functions whose address is taken by the native library tables (builtin bodies)."""
    out = set()
    g = fb.call_graph("lib")
    names = {f.name for f in fb.all("lib")}
    for tab in ("interpreter::library::native::base::library_map_result", "interpreter::library::native::write::library_map"):
        f = fb.find(tab)
        for x in g.get(f.name, ()):
            if x in names and x != f.name:
                out.add(x)
    return out


def find_cycle(g, start):
    """A cycle through `start` (list of nodes) or None."""
    prev = {}
    st = [(start, None)]
    seen = set()
    while st:
        n, pr = st.pop()
        for m in g.get(n, ()):
            if m == start:
                path = [n]
                x = n
                while x != start:
                    x = prev[x]
                    path.append(x)
                return list(reversed(path)) + [start]
            if m not in seen:
                seen.add(m)
                prev[m] = n
                st.append((m, n))
    return None
