"""C02 — Tail calls run in bounded space (structural part)."""
from . import mir
from .mir import callee, callee_matches, Prov
from .ctx import where_of

EXPLANATION = (
    "Every structural reason for which a tail call would consume Rust stack: (tail-returns) in both tail evaluators "
    "the ProcedureCall arm makes no call into the evaluator and only builds a TailCall; the Conditional arm "
    "evaluates only the test with eval_expression and hands both branches to the tail evaluator; (trampoline) in "
    "apply_procedure the TailCall arm re-assigns the applied procedure and the arguments from eval_procedure_call "
    "and reaches the loop back edge, never apply_procedure/apply_scheme_procedure; apply_scheme_procedure is called "
    "only inside that loop; (no-stack-cycle) in the resolved call graph with builtin bodies as indirect-call "
    "targets, apply_procedure lies on no cycle once the edges into eval_expression (non-tail sub-expressions) are "
    "removed; (frames-dropped) the loop accumulates nothing per iteration; (derived-tail) by abstract expansion of "
    "grammar.sld, every R7RS tail sub-form of begin/let/let*/cond/case/and/or/when/unless ends up in a position "
    "the two rules above prove to be handled without stack growth.")
NOT_DECIDED = ("measured stack depth and live heap per iteration (run-time quantities); equality of the loop's result "
               "with the bounded iteration.")

INTERP = "interpreter::interpreter::Interpreter::"
EVAL_SCC = ("eval_expression", "apply_procedure", "eval_procedure_call", "apply_scheme_procedure",
            "eval_tail_expression", "eval_owned_tail_expression", "read_literal")


def run(ctx):
    fb = ctx.fb()
    ctx.trust("rustc nightly MIR and callee resolution; indirect calls of builtin bodies are resolved to the functions "
              "registered in the native library tables")
    ee = fb.find(INTERP + "eval_expression")
    ap = fb.find(INTERP + "apply_procedure")
    asp = fb.find(INTERP + "apply_scheme_procedure")
    epc = fb.find(INTERP + "eval_procedure_call")
    vidx = dict((n, i) for i, n in fb.variants("parser::parser::ExpressionBody"))
    scc = {INTERP + n for n in EVAL_SCC}

    # ------------------------------------------------------------------ C02-tail-returns
    ctx.rule("C02-tail-returns", "a call in tail position is returned as a TailCall, not evaluated; conditionals evaluate "
                                 "only their test eagerly")
    n_te = 0
    live = fb.reachable_from([ap.name])
    for name in ("eval_tail_expression", "eval_owned_tail_expression"):
        f = fb.find(INTERP + name, required=(name == "eval_tail_expression"))
        if f is None:
            continue
        if f.name not in live:
            ctx.note("%s is not reachable from apply_procedure (dead code on this tree): not analysed" % name)
            continue
        regs = []
        for sb, place, a, targets, other in mir.discriminant_switches(f, "ExpressionBody"):
            if vidx["ProcedureCall"] in targets and targets[vidx["ProcedureCall"]] != other:
                regs.append(("call", mir.dominated_region(f, targets[vidx["ProcedureCall"]])))
            if vidx["Conditional"] in targets and targets[vidx["Conditional"]] != other:
                regs.append(("cond", mir.dominated_region(f, targets[vidx["Conditional"]])))
        call_regs = [r for k, r in regs if k == "call"]
        cond_regs = [r for k, r in regs if k == "cond"]
        # keep the innermost arms (the owned variant matches twice; the outer arm contains the inner match)
        call_reg = min(call_regs, key=len) if call_regs else None
        cond_reg = min(cond_regs, key=len) if cond_regs else None
        if call_reg is None or cond_reg is None:
            ctx.report("C02-tail-returns", name + "/arms", "no ProcedureCall / Conditional arm found in the tail evaluator", where_of(f))
            continue
        n_te += 1
        bad = [callee(t) for _, t in f.calls(call_reg) if callee(t) in scc]
        tc = [v for _, _, _, a, v in mir.aggregates(f, call_reg) if a.endswith("TailExpressionResult") or a.endswith("TailCall")]
        ctx.inst("C02-tail-returns", name + "/call-arm", {"evaluator_calls": bad, "builds": tc})
        if bad:
            ctx.report("C02-tail-returns", name + "/call-arm/evaluates", "a tail call is evaluated on the Rust stack: the "
                       "ProcedureCall arm calls %s" % bad, where_of(f))
        if "TailCall" not in tc:
            ctx.report("C02-tail-returns", name + "/call-arm/no-tailcall", "the ProcedureCall arm does not build a TailCall", where_of(f))
        # the TailCall carries operator, operands and the *current* environment
        for b, i, s, a, v in mir.aggregates(f, call_reg, "TailCall"):
            p = Prov(f)
            envop = s["rv"]["ops"][2]
            if p.arg_roots(envop) != {2}:
                ctx.report("C02-tail-returns", name + "/call-arm/env", "the pending tail call does not carry the current "
                           "environment", where_of(f, span=s["span"]))
        # conditional arm
        from .c01 import field_path, _through_deref
        for b, t in f.calls(cond_reg):
            c = callee(t)
            if c == ee.name:
                r, pth = field_path(f, _through_deref(f, t["args"][0]))
                comp = pth[-1] if pth else None
                ctx.inst("C02-tail-returns", name + "/cond-arm/eval_expression", {"component": comp})
                if comp != 0:
                    ctx.report("C02-tail-returns", name + "/cond-arm/branch-evaluated", "a branch of a tail `if` (component %s) is "
                               "evaluated with eval_expression instead of the tail evaluator" % comp, where_of(f, t))
            elif c in scc and c != f.name:
                ctx.report("C02-tail-returns", name + "/cond-arm/" + c.rsplit("::", 1)[-1], "the Conditional arm calls %s" % c, where_of(f, t))
        rec = [(b, t) for b, t in f.calls(cond_reg) if callee(t) == f.name]
        ctx.inst("C02-tail-returns", name + "/cond-arm/recursion", len(rec))
        if len(rec) != 2:
            ctx.report("C02-tail-returns", name + "/cond-arm/branches", "both branches must be handed to the tail evaluator "
                       "(found %d recursive calls)" % len(rec), where_of(f))
    if n_te < 1:
        ctx.report("C02-tail-returns", "floor", "no tail evaluator analysed")
    # apply_scheme_procedure hands the last expression to the tail evaluator and returns its result unchanged
    d0 = mir.defs_of(asp).get(0, [])
    kinds = sorted({callee(d[2]) if d[0] == "call" else "aggregate/assign" for d in d0})
    ctx.inst("C02-tail-returns", "apply_scheme_procedure/returns", kinds)
    okk = all(k.endswith("eval_tail_expression") or k.endswith("from_residual") for k in kinds) and \
        any(k.endswith("eval_tail_expression") for k in kinds)
    if not okk:
        ctx.report("C02-tail-returns", "apply_scheme_procedure/returns", "apply_scheme_procedure must return the tail "
                   "evaluator's result unchanged (or a propagated error); its result is produced by %s" % kinds, where_of(asp))

    # ------------------------------------------------------------------ C02-trampoline
    ctx.rule("C02-trampoline", "the trampoline iterates: a pending tail call re-binds procedure and arguments and loops")
    loops = ap.loops()
    tsw = [x for x in mir.discriminant_switches(ap, "TailExpressionResult")]
    if not loops or not tsw:
        ctx.report("C02-trampoline", "shape", "apply_procedure has no loop / does not match on TailExpressionResult", where_of(ap))
    else:
        head, body = max(loops, key=lambda hb: len(hb[1]))
        sb, place, a, targets, other = tsw[0]
        tci = fb.variant_index("TailExpressionResult", "TailCall")
        tc_t = targets.get(tci, other)
        reg = mir.dominated_region(ap, tc_t)
        calls_in = [callee(t) for _, t in ap.calls(reg)]
        bad = [c for c in calls_in if c in (ap.name, asp.name, ee.name)]
        has_epc = epc.name in calls_in
        reaches_head = head in ap.reachable(tc_t)
        # returns reachable from the arm only through `?`
        rets_direct = mir.paths_avoiding(ap, tc_t, ap.return_blocks(),
                                         [b for b, t in ap.calls(reg) if callee_matches(t, "FromResidual>::from_residual")] + [head])
        ctx.inst("C02-trampoline", "tailcall-arm", {"calls": [c.rsplit("::", 1)[-1] for c in calls_in if c], "reaches_loop_head": reaches_head})
        if bad:
            ctx.report("C02-trampoline", "tailcall-arm/recursion", "the pending tail call is applied by calling %s (Rust "
                       "recursion) instead of looping" % bad, where_of(ap))
        if not has_epc or not reaches_head or rets_direct is not None:
            ctx.report("C02-trampoline", "tailcall-arm/loop", "the TailCall arm does not (evaluate the call, then) go back to "
                       "the loop head (epc=%s, reaches head=%s, returns=%s)" % (has_epc, reaches_head, rets_direct), where_of(ap))
        # re-binding: on the back edge path, the applied-procedure place and the args local are assigned from epc's result
        p = Prov(ap)
        psw = next(iter(mir.discriminant_switches(ap, "values::Procedure")), None)
        P = psw[1]["local"]
        proots = {c for _, c in p.call_roots(P)}
        app = [(b, t) for b, t in ap.calls() if callee(t) == asp.name]
        aroots = {c for _, c in p.call_roots(app[0][1]["args"][4])} if app else set()
        ctx.inst("C02-trampoline", "rebinding", {"procedure_roots": sorted(proots), "args_roots": sorted(aroots)})
        if epc.name not in proots or epc.name not in aroots:
            ctx.report("C02-trampoline", "rebinding", "procedure / arguments of the next iteration do not come from the evaluated "
                       "tail call", where_of(ap))
        for b, t in app:
            if b not in body:
                ctx.report("C02-trampoline", "apply-outside-loop", "apply_scheme_procedure is called outside the trampoline loop", where_of(ap, t))
        # the environment of the tail call comes from the TailCall, not from apply_procedure's env
        for b, t in ap.calls(reg):
            if callee(t) == epc.name and 3 in p.arg_roots(t["args"][2]):
                ctx.report("C02-trampoline", "tailcall-env", "the tail call is evaluated in the caller's environment", where_of(ap, t))

        # -------------------------------------------------------------- C02-frames-dropped
        ctx.rule("C02-frames-dropped", "no per-iteration accumulation in the trampoline")
        acc = [callee(t) for b, t in ap.calls(body) if callee_matches(t, "Vec::push", "HashMap::insert", "Extend>::extend",
                                                                      "VecDeque::push_back", "SmallVec::push", "Vec::insert")]
        ctx.inst("C02-frames-dropped", "loop-body", {"blocks": len(body), "accumulating_calls": acc})
        if acc:
            ctx.report("C02-frames-dropped", "accumulates", "the trampoline accumulates per iteration via %s" % acc, where_of(ap))
        for f in (ap, asp):
            for b, i, s in f.stmts():
                if s["k"] == "assign" and s["place"]["proj"] and any(e["k"] == "field" for e in s["place"]["proj"]) \
                        and s["place"]["local"] <= f.arg_count and "LexicalScope" in str(s["rv"]):
                    ctx.report("C02-frames-dropped", f.name + "/stores-frame", "a frame is stored into a parameter's field", where_of(f, span=s["span"]))

    # ------------------------------------------------------------------ C02-no-stack-cycle
    ctx.rule("C02-no-stack-cycle", "the evaluator recurses only through non-tail sub-expressions (edges into eval_expression)")
    g = {k: set(v) for k, v in fb.call_graph("lib").items()}
    bpa = fb.find("values::BuiltinProcedureBody::apply")
    reg_targets = registry_targets(fb)
    g.setdefault(bpa.name, set()).update(reg_targets)
    # remove edges into eval_expression (and read_literal, which cannot apply procedures)
    cut = {ee.name}
    for k in g:
        g[k] = {x for x in g[k] if x not in cut}
    cyc = find_cycle(g, ap.name)
    ctx.inst("C02-no-stack-cycle", "graph", {"nodes": len(g), "builtin_targets": len(reg_targets)})
    if cyc:
        short = [c.rsplit("::", 2)[-2] + "::" + c.rsplit("::", 1)[-1] if c.count("::") > 1 else c for c in cyc]
        key = "->".join(c.rsplit("::", 1)[-1] for c in cyc)
        ctx.report("C02-no-stack-cycle", key, "apply_procedure re-enters itself on the Rust stack without passing through "
                   "eval_expression: %s (a procedure applied through this path in tail position consumes stack)" % " -> ".join(short), where_of(ap))
    if len(reg_targets) < 40:
        ctx.report("C02-no-stack-cycle", "floor", "only %d builtin targets resolved (expected >= 40)" % len(reg_targets))

    # ------------------------------------------------------------------ C02-derived-tail (Engine C)
    try:
        from scm import derived
        derived.tail_rule(ctx)
    except ImportError:
        ctx.note("Engine C (grammar.sld analysis) not available in this revision: C02-derived-tail not run")
    return EXPLANATION, NOT_DECIDED


def registry_targets(fb):
    """Functions whose address is taken by the native library tables (builtin bodies)."""
    out = set()
    g = fb.call_graph("lib")
    names = {f.name for f in fb.all("lib")}
    for tab in ("interpreter::library::native::base::library_map_result", "interpreter::library::native::write::library_map"):
        f = fb.find(tab)
        for x in g.get(f.name, ()):
            if x in names and x != f.name:
                out.add(x)
    return out


def find_cycle(g, start):
    """A cycle through `start` (list of nodes) or None."""
    prev = {}
    st = [(start, None)]
    seen = set()
    while st:
        n, pr = st.pop()
        for m in g.get(n, ()):
            if m == start:
                path = [n]
                x = n
                while x != start:
                    x = prev[x]
                    path.append(x)
                return list(reversed(path)) + [start]
            if m not in seen:
                seen.add(m)
                prev[m] = n
                st.append((m, n))
    return None
