"""Decision tables of the macro expander's rule selection and of macro-use handling (machine.py)."""
from . import absint, machine, mir
from .absint import Enum, UNKNOWN
from .machine import NOT, Machine, ok, err, some, none
from .mir import callee, callee_matches
from .evaltables import Tok, contains, find_enum

MD = "parser::macros::<impl error::Located<parser::macros::SyntaxPatternBody>>::match_datum"
SUB = "parser::macros::<impl error::Located<parser::macros::SyntaxTemplateBody>>::substitude"


def transform_table(fb, n_rules=3):
    """UserDefinedTransformer::transform on a transformer with rules R0..Rn-1 (opaque patterns / templates), for every vector of
    match outcomes: which rules are tried, in which order, which template is filled, what is returned"""
    tr = fb.find("parser::macros::UserDefinedTransformer::transform")
    rows = []
    for mask in range(1 << n_rules):
        outcome = [bool(mask >> i & 1) for i in range(n_rules)]
        pats = [Tok("pattern", i) for i in range(n_rules)]
        tmps = [Tok("template", i) for i in range(n_rules)]
        lits = Tok("literals", "L")
        datum = [Tok("datum-body", "use"), some([7, 3])]
        selfv = [none(), lits, [[p, t] for p, t in zip(pats, tmps)]]
        ev = []

        def icpt(mc, c, a, tt, g):
            if c == MD:
                i = a[0].tag if isinstance(a[0], Tok) and a[0].kind == "pattern" else None
                mp = a[4] if len(a) > 4 else None
                ev.append(("match", i, a[1] is datum, a[3] is lits if len(a) > 3 else None, mp,
                           len(mp.d) if isinstance(mp, machine.Map) else None))
                if isinstance(mp, machine.Map):
                    mp.d[("v", "binding-of-rule-%s" % i)] = ("binding-of-rule-%s" % i, True)     # the matcher records bindings
                return ok(outcome[i]) if i is not None else UNKNOWN
            if c == SUB:
                i = a[0].tag if isinstance(a[0], Tok) and a[0].kind == "template" else None
                ev.append(("fill", i, a[1] if len(a) > 1 else None))
                return ok([Tok("expansion", i)])
            if callee_matches(tt, "std::string::ToString>::to_string") and isinstance(a[0], str):
                return a[0]
            return NOT
        mc = Machine(fb, intercept=icpt, max_visits=n_rules + 3)
        try:
            res = mc.run(tr, [selfv, "kw", datum])
        except (absint.Stuck, absint.Loop) as e:
            rows.append((outcome, {"stuck": str(e)}))
            continue
        rows.append((outcome, {"events": ev, "result": res}))
    return rows


def rule_first_match(ctx, rule, rule_nomatch=None):
    fb = ctx.fb()
    from .ctx import where_of
    tr = fb.find("parser::macros::UserDefinedTransformer::transform")
    decided = 0
    for outcome, d in transform_table(fb):
        key = "transform/matches=%s" % "".join("T" if x else "F" for x in outcome)
        if "stuck" in d:
            ctx.undecided(rule, key, "cannot follow UserDefinedTransformer::transform (%s)" % d["stuck"], where_of(tr))
            continue
        decided += 1
        first = outcome.index(True) if True in outcome else None
        tried = [e[1] for e in d["events"] if e[0] == "match"]
        filled = [e[1] for e in d["events"] if e[0] == "fill"]
        want_tried = list(range(first + 1)) if first is not None else list(range(len(outcome)))
        res = d["result"]
        bad = None
        if tried != want_tried:
            bad = "with match outcomes %s the rules tried are %s, expected %s (textual order, stopping at the first match)" % (outcome, tried, want_tried)
        elif not all(e[2] for e in d["events"] if e[0] == "match"):
            bad = "a rule is matched against something other than the macro use"
        elif first is not None and (filled != [first] or not contains(res, lambda x: isinstance(x, Tok) and x.kind == "expansion" and x.tag == first)
                                    or getattr(res, "name", None) != "Ok"):
            bad = "with match outcomes %s the template filled is %s and the result %r, expected the expansion of rule %d" % (outcome, filled, res, first)
        elif first is None and not (getattr(res, "name", None) == "Err" and find_enum(res, "MacroMissMatch") and not filled):
            bad = "when no rule matches the result is %r, expected Err(MacroMissMatch)" % (res,)
        if bad is None:
            ms = {e[1]: e for e in d["events"] if e[0] == "match"}
            if any(e[5] not in (0, None) for e in ms.values()):
                bad = "a rule is matched into a substitution map that still holds bindings of an earlier, failed rule"
            elif first is not None:
                fe = [e for e in d["events"] if e[0] == "fill"][0]
                if isinstance(ms[first][4], machine.Map) and fe[2] is not ms[first][4]:
                    bad = "the template is filled from a substitution map other than the one its pattern was matched into"
        rr = (rule_nomatch or rule) if first is None else rule
        ctx.inst(rr, key, {"tried": tried, "filled": filled})
        ctx.oblige(bad is None)
        if bad:
            ctx.report(rr, key, bad, where_of(tr))
    return decided
