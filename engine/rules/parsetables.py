"""Datum skeletons for parser-level decision tables (machine.py)."""
from . import machine
from .absint import Enum


class Datums:
    def __init__(self, fb):
        self.fb = fb
        self.db = dict((n, i) for i, n in fb.variants("parser::datum::DatumBody"))
        self.gp = dict((n, i) for i, n in fb.variants("parser::pair::GenericPair"))
        self.n = 0

    def loc(self):
        self.n += 1
        return machine.some([50 + self.n, 1])

    def located(self, data):
        e = Enum(0, [data, self.loc()])
        e.name, e.adt = "Located", "error::Located"
        return e

    def body(self, name, *f):
        e = Enum(self.db[name], list(f))
        e.name, e.adt = name, "parser::datum::DatumBody"
        return e

    def pair(self, name, *f):
        e = Enum(self.gp[name], list(f))
        e.name, e.adt = name, "parser::pair::GenericPair"
        return e

    def sym(self, s):
        return self.located(self.body("Symbol", s))

    def lst(self, items, tail=None):
        t = tail if tail is not None else self.located(self.body("Pair", self.pair("Empty")))
        for x in reversed(items):
            t = self.located(self.body("Pair", self.pair("Some", x, t)))
        return t
