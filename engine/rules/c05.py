"""C05 — Derived forms behave as R7RS specifies (static analysis of src/parser/grammar.sld)."""
from . import mir, absint
from .mir import callee, callee_matches, Prov
from .ctx import where_of

EXPLANATION = (
    "grammar.sld — compiled into the binary with include_str! — is analysed by an independent R7RS reader and abstract "
    "expansion of every syntax-rules template down to lambda/if/quote/application: (wellformed) the nine forms are defined "
    "inside the expander's supported class (keyword at the head of each pattern, final single ellipsis per list, equal "
    "ellipsis depth in pattern and template); (capture) no template-introduced binder has a user sub-form in its scope and "
    "every free identifier a template introduces is a core or derived keyword (the expander is non-hygienic: this fact is "
    "re-checked on the Rust side); (once) no sub-form is evaluated twice on one control path; (scope) let initialisers lie "
    "outside the binding lambda, let* nests left to right; (select) results and remaining clauses sit in opposite arms of an "
    "`if` on the clause's test, tests are evaluated unconditionally exactly once, `=>` receivers are applied once, (and) is #t, "
    "(or) is #f; (coverage, thorough) every R7RS clause shape is matched by some rule under one-or-more ellipsis semantics.")
NOT_DECIDED = ("the value each derived form returns for arbitrary sub-forms and evaluation order beyond at-most-once and arm "
               "placement; behaviour of user-defined macros.")


def run(ctx):
    from scm import derived
    fb = ctx.fb()
    ctx.trust("the framework's own reader for R7RS data syntax; the statement of the expander's semantics class (non-hygienic: "
              "re-checked; one-or-more ellipsis and keyword-at-head: taken from the property C04)")
    # facts about the Rust side the analysis depends on
    ctx.rule("C05-expander-facts", "the expander is non-hygienic and the bundled file is what create_syntax_binding loads")
    sub = fb.find("parser::macros::<impl error::Located<parser::macros::SyntaxTemplateBody>>::substitude")
    sw = next(iter(mir.discriminant_switches(sub, "SyntaxTemplateBody")), None)
    ii = fb.variant_index("parser::macros::SyntaxTemplateBody", "Identifier")
    reg = mir.dominated_region(sub, sw[3].get(ii, sw[4])) if sw else set()
    renames = [callee(t) for _, t in sub.calls(reg) if callee_matches(t, "format", "gensym", "rename", "String::push_str")]
    emits_sym = any(v == "Symbol" for _, _, _, _, v in mir.aggregates(sub, reg))
    ctx.inst("C05-expander-facts", "non-hygienic", {"emits_template_symbol_unchanged": emits_sym and not renames})
    hygienic = bool(renames) or not emits_sym
    # the text compiled in: the constant in the thread-local initialiser equals the file analysed
    # (whichever function holds the include_str! constant: any `chars()` over a string constant in the parser module)
    import os
    path = os.path.join(os.environ.get("VERIF_REPO", "/repo"), derived.GRAMMAR)
    file_text = open(path).read()
    loaded = []
    for f in fb.all("lib"):
        if not (f.name.startswith("parser::") or f.name.startswith("<parser::")):
            continue
        for b, t in f.calls():
            if callee_matches(t, "<impl str>::chars"):
                txt = mir.str_of(f, t["args"][0])
                if txt is not None and len(txt) > 200:
                    loaded.append((f, txt))
    same = any(txt == file_text for _, txt in loaded)
    ctx.inst("C05-expander-facts", "compiled-text", {"equals_file": same, "loaders": [f.name for f, _ in loaded]})
    if loaded and not same:
        ctx.report("C05-expander-facts", "compiled-text", "the text compiled into the parser (%s) is not %s" % ([f.name for f, _ in loaded], derived.GRAMMAR),
                   where_of(loaded[0][0]))
    elif not loaded:
        ctx.undecided("C05-expander-facts", "loader", "no function of the parser module loads a compiled-in text: cannot tell which file defines "
                      "the derived forms", None)
    mf, an = derived.c05_rules(ctx) if not hygienic else (None, None)
    if hygienic:
        ctx.note("the expander renames template identifiers: capture rules do not apply as written")
        mf, an = derived.c05_rules(ctx)
    derived.c05_receiver_and_value(ctx, mf, an)
    # ---- semantic oracle: abstract evaluation of the expansion of schematic uses against R7RS 4.2
    from scm import semantics, coverage
    ctx.rule("C05-semantics", "for schematic uses of every rule (ellipses instantiated 1 and 2 times, every assignment of "
                              "#f / #t / other-true to the operands) the expansion evaluates the same operands, in the same order "
                              "and visibility, to the same value as the R7RS definition")
    total = 0
    for (kw, idx), (r, sk, rm) in sorted(an.items()):
        if kw not in derived.NINE:
            continue          # a helper macro of the file: it has no R7RS meaning of its own; it is expanded inside the forms that use it
        atomic = [v for v, role in rm.items() if role == "KEY"] if kw == "case" and idx > 0 else []
        try:
            bad, n = semantics.compare_rule(mf, r, rm, atomic, ks=(1, 2) if ctx.tier == "quick" else (1, 2, 3))
        except Exception as e:
            # a rule whose uses the reference semantics has no reading for (a form R7RS spells otherwise, an extension)
            ctx.undecided("C05-semantics", "%s/%s" % (kw, derived.rid(r)), "the schematic uses of rule %d of %s have no reading in the reference "
                          "semantics (%s: %s)" % (idx, kw, type(e).__name__, str(e)[:80]), derived.GRAMMAR)
            continue
        total += n
        ctx.inst("C05-semantics", "%s#%d" % (kw, idx), {"cases": n, "disagreements": len(bad)})
        for b in bad[:1]:
            if b[1] is None:
                ctx.report("C05-semantics", "%s/%s/expands" % (kw, derived.rid(r)), "a use matched by rule %d of %s, %r, cannot be expanded: %s" % (idx, kw, b[0], b[3]),
                           derived.GRAMMAR)
            else:
                ctx.report("C05-semantics", "%s/%s" % (kw, derived.rid(r)),
                           "rule %d of %s: for the use %r with operand values %s R7RS gives value %s after %s, the expansion gives %s after %s" % (
                               idx, kw, b[0], b[1], b[2][0], b[2][1], b[3][0], b[3][1]), derived.GRAMMAR)
    ctx.extra_cov["semantic_cases"] = total
    coverage.run(ctx, mf)
    # the binding forms expand to applications of lambda expressions: "let evaluates all initialisers outside the scope of its
    # variables" and "let* scopes them left to right" hold only if every such application — also the one reached through a tail
    # call, which is what a let in tail position is — binds its parameters in a frame of its own under the frame the lambda was made in
    ctx.rule("C05-binding-frames", "the application a binding form expands to binds its variables in a new child of the frame the form is "
                                   "evaluated in, in non-tail and in tail position (application and trampoline tables)")
    from . import evaltables
    evaltables.rule_application(ctx, "C05-binding-frames", {"frame", "bind"})
    evaltables.rule_trampoline(ctx, "C05-binding-frames", {"frame"})
    evaltables.rule_thunk_call(ctx, "C05-binding-frames")
    # ... and the parser must hand the evaluator every sub-form of what the derived forms expand into: thunk calls with internal
    # definitions and several body forms (begin, (let () ...)), nested calls, conditionals
    ctx.rule("C05-core-forms-kept", "the parser keeps every sub-form of the core forms the derived forms expand into (lambda / thunk call with "
                                    "internal definitions and body forms, if, set!, define, nested calls): each marker identifier of twenty "
                                    "texts occurs in the parsed statement as often as in the text (crate's own lexer and parser followed)")
    from . import readtables as _rt05
    _rt05.rule_core_forms(ctx, "C05-core-forms-kept")
    # `case` selects a clause by (memv key '(datum ...)) — a free reference to the library's memv: the clause R7RS selects is the
    # one the expansion selects only if that procedure is membership by eqv? at every position of the datum list
    ctx.rule("C05-case-membership", "the memv that `case` expands into compares the key with every datum by eqv? (a datum that is a list "
                                    "with the same elements as the key, but another object, selects nothing)")
    from . import listtables as _lt05
    _lt05.rule_list_library(ctx, "C05-case-membership", only={"memv"})
    # and / or / cond / case / when / unless all end in the core `if`: "each operand once, in order, the last one's value" holds only
    # if both evaluators of `if` evaluate the test, then exactly the selected arm — also when that arm is the same text as the test,
    # which is what (and e e) and (or e e) expand into
    ctx.rule("C05-core-if", "the conditional the derived forms expand into: the test once, judged by as_boolean, then the selected arm and "
                            "nothing else, in the same environment — also when the arm is another occurrence of the test's text "
                            "((and e e) = (if e e #f)); both evaluators")
    fb = ctx.fb()
    w05 = evaltables.tables(fb)["w"]
    for f05 in (w05.ee, w05.ete):
        try:
            evaltables.rule_conditional(ctx, "C05-core-if", f05)
        except (mir.AnchorMissing, absint.Stuck, absint.Loop) as e:
            ctx.undecided("C05-core-if", f05.name.rsplit("::", 1)[-1], "the conditional table could not be built (%s)" % e)
    return EXPLANATION, NOT_DECIDED
