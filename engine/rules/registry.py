"""The builtin registration tables (native::base::library_map_result, native::write::library_map) read from MIR.

Each registration is the segment of the success path ending in a call of Procedure::new_builtin_{pure,impure}:
name constant, one ParameterFormalsBody::Name aggregate per parameter, an `append` call iff variadic (then the
last name is the rest parameter), and the target function (fn item / ReifyFnPointer cast / closure)."""
from . import mir
from .mir import callee, callee_matches

TABLES = ("interpreter::library::native::base::library_map_result", "interpreter::library::native::write::library_map")


def _target_of(f, o):
    """Resolve the function operand of new_builtin_*: constant fn item, cast of a fn item, closure."""
    for _ in range(10):
        c = mir.op_const(o)
        if c is not None and "fn" in c:
            return mir.norm(c["fn"].get("resolved") or c["fn"]["def"])
        l = mir.op_local(o)
        if l is None:
            return None
        ds = mir.defs_of(f).get(l, [])
        if len(ds) != 1 or ds[0][0] != "stmt":
            return None
        rv = ds[0][3]["rv"]
        if rv["k"] == "cast":
            if "fn" in rv:
                return mir.norm(rv["fn"].get("resolved") or rv["fn"]["def"])
            o = rv["op"]
            continue
        if rv["k"] == "aggregate" and rv["kind"]["k"] == "closure":
            return mir.norm(rv["kind"]["def"])
        if rv["k"] == "use":
            o = rv["op"]
            continue
        return None
    return None


def success_path(f):
    """Blocks along the straight success path (Continue edges of `?`, assert/drop targets)."""
    b = 0
    seen = set()
    out = []
    while b is not None and b not in seen:
        seen.add(b)
        out.append(b)
        t = f.blocks[b]["term"]
        k = t["k"]
        if k in ("goto",):
            b = t["target"]
        elif k in ("call", "assert", "drop"):
            b = t.get("target")
        elif k == "switch":
            # take the Continue edge (value 0) of a Try::branch discriminant, or a drop-flag switch's 0 edge
            tg = dict((v, bb) for v, bb in t["targets"])
            b = tg.get(0, t["otherwise"])
        else:
            b = None
    return out


def read(fb):
    """-> list of dict(name, fixed, variadic, params, target, kind, table)"""
    regs = []
    for tab in TABLES:
        f = fb.find(tab)
        path = success_path(f)
        names, params, variadic = [], [], False
        for b in path:
            blk = f.blocks[b]
            for s in blk["stmts"]:
                if s["k"] == "assign" and s["rv"]["k"] == "aggregate" and s["rv"]["kind"].get("variant") == "Name" \
                        and s["rv"]["kind"]["k"] == "adt" and mir.norm(s["rv"]["kind"]["adt"]).endswith("ParameterFormalsBody"):
                    params.append(_string_arg(f, s["rv"]["ops"][0]))
            t = blk["term"]
            if t["k"] != "call":
                continue
            c = callee(t) or ""
            if c.endswith("ToOwned for str>::to_owned") or c.endswith("ToOwned>::to_owned"):
                s_ = mir.str_of(f, t["args"][0])
                if s_ is not None:
                    names.append(s_)
            elif c.endswith("ParameterFormalsBody>>::append"):
                variadic = True
            elif c.endswith("values::Procedure::new_builtin_pure") or c.endswith("values::Procedure::new_builtin_impure"):
                target = _target_of(f, t["args"][2])
                if target is None:
                    # generic fn item passed by value (zero sized): look at the generic arguments
                    gens = (t.get("fn") or {}).get("generics", [])
                    for g in gens:
                        if "fn(" in g or "{closure" in g or "::" in g and "<" not in g.split("::")[-1]:
                            pass
                fixed = len(params) - (1 if variadic else 0)
                regs.append({"name": names[0] if names else None, "names": list(names), "fixed": fixed,
                             "variadic": variadic, "params": list(params), "target": target,
                             "kind": "impure" if c.endswith("_impure") else "pure", "table": tab,
                             "where": mir.span_loc(t["span"])})
                names, params, variadic = [], [], False
    return regs


def _string_arg(f, o):
    """the &str handed to to_string()/to_owned() that produced operand o"""
    l = mir.op_local(o)
    ds = mir.defs_of(f).get(l, []) if l is not None else []
    if len(ds) == 1 and ds[0][0] == "call":
        return mir.str_of(f, ds[0][2]["args"][0])
    return None
