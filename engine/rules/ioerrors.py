"""Who-may-drop rule for I/O errors: a `Result<_, std::io::Error>` (reading the program file, a library file, a line) must reach the
caller — through `?`, a `match`, `map_err` into the crate's error type — and never be turned into `None` / a default / nothing.
Decided on the MIR of every non-derived function of lib and bin:
  * a call of Result::{ok, err, unwrap_or, unwrap_or_default, unwrap_or_else, map_or, map_or_else, or, or_else, is_ok, is_err, iter,
    into_iter} whose receiver's error type is std::io::Error;
  * one of those methods passed as a function value (`filter_map(Result::ok)`, `map_while(Result::ok)`);
  * `flatten()` / `flat_map` directly over an iterator of io::Result (`lines().flatten()` drops unreadable lines).
`unwrap` / `expect` are not swallowing (they are panic sites and belong to C07's census)."""
import json
from . import mir
from .mir import callee

SWALLOW = ("ok", "err", "unwrap_or", "unwrap_or_default", "unwrap_or_else", "map_or", "map_or_else", "or", "or_else", "is_ok", "is_err",
           "iter", "into_iter")
IOERR = "std::io::Error"
IO_ITERS = ("std::io::Lines<", "std::io::Bytes<", "std::io::Split<", "std::fs::ReadDir")


def sites(fb):
    out, seen = [], 0
    for f in fb.all():
        if f.derived or "::tests::" in f.name:
            continue
        for b, t in f.calls():
            c = callee(t) or ""
            end = c.rsplit("::", 1)[-1]
            gens = [str(x) for x in ((t.get("fn") or {}).get("generics") or [])]
            if "result::Result" in c and end in SWALLOW:
                a = t["args"][0] if t["args"] else None
                l = mir.op_local(a) if a else None
                ty = (f.local_ty(l) if l is not None else "") or ""
                if IOERR in ty or (len(gens) >= 2 and gens[1] == IOERR):
                    seen += 1
                    out.append((f, t, "Result::%s on a Result<_, io::Error>" % end))
            if end in ("flatten", "flat_map", "filter_map", "map_while", "take_while", "scan") and gens:
                src = gens[0]
                direct = any(src.startswith(p) for p in IO_ITERS)
                if end == "flatten" and direct:
                    out.append((f, t, "flatten() over %s drops every item that is an I/O error" % src.split("<")[0]))
                # a swallowing method handed over as a function value
                for a in t["args"][1:]:
                    txt = json.dumps(a)
                    if a.get("k") == "const" and "Result::<" in txt and IOERR in txt and any(("::%s}" % m_) in txt or ("::%s\"" % m_) in txt for m_ in SWALLOW):
                        out.append((f, t, "%s(Result::%s) over io::Result items" % (end, next(m_ for m_ in SWALLOW if ("::%s" % m_) in txt))))
    return out


def rule(ctx, rule_id, what="reading a program or library file"):
    fb = ctx.fb()
    from .ctx import where_of
    ss = sites(fb)
    producers = 0
    for f in fb.all():
        if f.derived:
            continue
        for b, t in f.calls():
            dty = f.local_ty(t["dest"]["local"]) or ""
            if dty.startswith("std::result::Result<") and IOERR in dty:
                producers += 1
    ctx.inst(rule_id, "io-error-results", {"producing_calls": producers, "swallowing_sites": len(ss)})
    ctx.oblige(not ss)
    for f, t, why in ss:
        ctx.report(rule_id, "%s/io-error-dropped" % f.name.split("::{closure")[0], "an I/O error of %s is dropped in %s: %s; the failure must come back "
                   "as an error (diagnostic and non-zero status), not as a silently shortened text" % (what, f.name, why), where_of(f, t))
    return True
