"""Who-may-drop rule for I/O errors: a `Result<_, std::io::Error>` (reading the program file, a library file, a line) must reach the
caller — through `?`, a `match`, `map_err` into the crate's error type — and never be turned into `None` / a default / nothing.
Decided on the MIR of every non-derived function of lib and bin:
  * a call of Result::{ok, err, unwrap_or, unwrap_or_default, unwrap_or_else, map_or, map_or_else, or, or_else, is_ok, is_err, iter,
    into_iter} whose receiver's error type is std::io::Error;
  * one of those methods passed as a function value (`filter_map(Result::ok)`, `map_while(Result::ok)`);
  * `flatten()` / `flat_map` directly over an iterator of io::Result (`lines().flatten()` drops unreadable lines).
`unwrap` / `expect` are not swallowing (they are panic sites and belong to C07's census)."""
import json
from . import mir
from .mir import callee, Prov

SWALLOW = ("ok", "err", "unwrap_or", "unwrap_or_default", "unwrap_or_else", "map_or", "map_or_else", "or", "or_else", "is_ok", "is_err",
           "iter", "into_iter")
IOERR = "std::io::Error"
IO_ITERS = ("std::io::Lines<", "std::io::Bytes<", "std::io::Split<", "std::fs::ReadDir")


def sites(fb):
    out, seen = [], 0
    for f in fb.all():
        if f.derived or "::tests::" in f.name:
            continue
        for b, t in f.calls():
            c = callee(t) or ""
            end = c.rsplit("::", 1)[-1]
            gens = [str(x) for x in ((t.get("fn") or {}).get("generics") or [])]
            if "result::Result" in c and end in SWALLOW:
                a = t["args"][0] if t["args"] else None
                l = mir.op_local(a) if a else None
                ty = (f.local_ty(l) if l is not None else "") or ""
                if IOERR in ty or (len(gens) >= 2 and gens[1] == IOERR):
                    seen += 1
                    out.append((f, t, "Result::%s on a Result<_, io::Error>" % end))
            if end in ("flatten", "flat_map", "filter_map", "map_while", "take_while", "scan") and gens:
                src = gens[0]
                direct = any(src.startswith(p) for p in IO_ITERS)
                if end == "flatten" and direct:
                    out.append((f, t, "flatten() over %s drops every item that is an I/O error" % src.split("<")[0]))
                # a swallowing method handed over as a function value
                for a in t["args"][1:]:
                    txt = json.dumps(a)
                    if a.get("k") == "const" and "Result::<" in txt and IOERR in txt and any(("::%s}" % m_) in txt or ("::%s\"" % m_) in txt for m_ in SWALLOW):
                        out.append((f, t, "%s(Result::%s) over io::Result items" % (end, next(m_ for m_ in SWALLOW if ("::%s" % m_) in txt))))
    return out


def rule(ctx, rule_id, what="reading a program or library file"):
    fb = ctx.fb()
    from .ctx import where_of
    ss = sites(fb)
    producers = 0
    for f in fb.all():
        if f.derived:
            continue
        for b, t in f.calls():
            dty = f.local_ty(t["dest"]["local"]) or ""
            if dty.startswith("std::result::Result<") and IOERR in dty:
                producers += 1
    ctx.inst(rule_id, "io-error-results", {"producing_calls": producers, "swallowing_sites": len(ss)})
    ctx.oblige(not ss)
    for f, t, why in ss:
        ctx.report(rule_id, "%s/io-error-dropped" % f.name.split("::{closure")[0], "an I/O error of %s is dropped in %s: %s; the failure must come back "
                   "as an error (diagnostic and non-zero status), not as a silently shortened text" % (what, f.name, why), where_of(f, t))
    return True


# ------------------------------------------------------------------------------------------------ the text handed to the reader


def _rust_lines(text):
    """std's BufRead::lines: split after every '\\n', the terminator ('\\n' or '\\r\\n') removed"""
    parts = text.split("\n")
    if parts and parts[-1] == "":
        parts.pop()
    return [p[:-1] if p.endswith("\r") else p for p in parts]


STREAM_TEXTS = (
    ("lf", "(a)\n(b)\n"), ("crlf", "(a)\r\n(b)\r\n"), ("lf/no-final-newline", "(a)\n(b)"), ("crlf/no-final-newline", "(a)\r\n(b)"),
    ("empty", ""), ("blank-lines", "\n\n(x)\n"), ("crlf/blank-lines", "\r\n\r\n(x)\r\n"), ("indent-and-tab", "  (a\n\t b)\n"),
    ("non-ascii", "(λ \"é\")\n"), ("one-line", "(a)"), ("comment-last", "(a) ; c"),
    # blanks at the end of a line that belong to a token: the character #\space as the last token of a line, a string and a
    # |symbol| with blanks before a raw line break
    ("character-space-at-line-end", "(list #\\ \n 1)\n"), ("blanks-before-a-line-break-in-a-string", "\"ab  \ncd\"\n"),
    ("blanks-before-a-line-break-in-a-symbol", "|p \t\nq|\n"),
)


def stream_table(fb, fname="io::file_char_stream"):
    """the characters `file_char_stream` yields for a file with a given text: abstract run with the file system calls answered from
    the text (File::open + BufReader + lines(), fs::read_to_string); anything else it may use is not modelled -> stuck"""
    from . import machine, absint
    from .machine import Machine, NOT, ok
    f = fb.find(fname)
    rows = []
    for label, text in STREAM_TEXTS:
        ft = object()

        pos = [0]

        def icpt(mc, c, a, tt, g, text=text, ft=ft, pos=pos):
            if c.endswith("fs::File::open"):
                return ok(ft)
            if (c.endswith("BufReader::new") or c.endswith("BufReader::<R>::new")) and a and a[0] is ft:
                return ft
            if c.endswith("BufRead::lines") and a and a[0] is ft:
                return machine.Iter([ok(l) for l in _rust_lines(text)])
            if c.endswith("BufRead::read_line") and a and a[0] is ft and len(a) > 1 and isinstance(a[1], str):
                # appends the next line INCLUDING its terminator (the last line may have none); Ok(number of bytes), 0 at the end
                raw_ = getattr(mc, "cur_raw", None)
                if raw_ is None or not isinstance(raw_[1], absint.Ptr):
                    return NOT
                i = pos[0]
                if i >= len(text):
                    return ok(0)
                j = text.find("\n", i)
                j = len(text) if j < 0 else j + 1
                pos[0] = j
                raw_[1].set(a[1] + text[i:j])
                return ok(len(text[i:j].encode("utf-8")))
            if c.endswith("Read::read_to_string") and a and a[0] is ft and len(a) > 1 and isinstance(a[1], str):
                raw_ = getattr(mc, "cur_raw", None)
                if raw_ is None or not isinstance(raw_[1], absint.Ptr):
                    return NOT
                rest = text[pos[0]:]
                pos[0] = len(text)
                raw_[1].set(a[1] + rest)
                return ok(len(rest.encode("utf-8")))
            if c.endswith("fs::read_to_string"):
                return ok(text)
            return NOT
        mc = Machine(fb, intercept=icpt, max_visits=max(40, 2 * len(text) + 8), budget=4000)
        try:
            r = mc.run(f, [absint.UNKNOWN])
        except (absint.Stuck, absint.Loop) as e:
            rows.append((label, text, {"stuck": str(e)}))
            continue
        out = None
        if isinstance(r, absint.Enum) and r.variant == 0 and r.fields:
            it = r.fields[0]
            try:
                items = it.rest() if isinstance(it, machine.Iter) else (mc.drain(it) if hasattr(mc, "drain") and not isinstance(it, list) else it)
            except (absint.Stuck, absint.Loop) as e:
                rows.append((label, text, {"stuck": str(e)}))
                continue
            if isinstance(items, list) and all(isinstance(x, int) and not isinstance(x, bool) for x in items):
                out = "".join(chr(x) for x in items)
        if out is None:
            rows.append((label, text, {"stuck": "the result is not Ok(a stream of known characters): %r" % (r,)}))
        else:
            rows.append((label, text, {"stream": out}))
    return f, rows


def rule_stream(ctx, rule_id):
    """the reader is handed the file's text: the same characters in the same order, line ends kept or CRLF folded to LF, at most one
    newline added at the very end — so every form sits on the line it has in the file and nothing is dropped or doubled"""
    fb = ctx.fb()
    from .ctx import where_of
    try:
        f, rows = stream_table(fb)
    except mir.AnchorMissing as e:
        ctx.undecided(rule_id, "file-text", str(e))
        return 0
    decided = 0
    for label, text, d in rows:
        key = "file-text/%s" % label
        if "stuck" in d:
            ctx.undecided(rule_id, key, "cannot follow file_char_stream on a file holding %r (%s)" % (text, d["stuck"]), where_of(f))
            continue
        folded = text.replace("\r\n", "\n")
        good = {text, folded}
        good |= {t + "\n" for t in list(good) if t and not t.endswith("\n")}
        decided += 1
        okk = d["stream"] in good
        ctx.inst(rule_id, key, {"file": text, "stream": d["stream"], "same_text": okk})
        ctx.oblige(okk)
        if not okk:
            ctx.report(rule_id, key, "a file holding %r is handed to the reader as %r: not the file's text (line ends kept or CRLF folded to "
                       "LF, at most a final newline added) — lines are doubled, dropped or changed, so diagnostics name other lines and "
                       "multi-line strings differ from the same text evaluated through the library" % (text, d["stream"]), where_of(f))
    return decided


# ------------------------------------------------------------------------------------------------ partial writes / reads

def rule_io_amounts(ctx, rule_id):
    """`Write::write` / `Read::read` may transfer fewer bytes than asked and say how many: a call whose count is thrown away (only
    the error case is looked at) silently loses the rest of the text.  (`write_all`, `write_fmt`, `print!` loop until everything is
    out.)  Contract of std::io, decided on the data flow of the returned count."""
    fb = ctx.fb()
    from .ctx import where_of
    n = 0
    for f in fb.all("lib") + fb.all("bin"):
        p = None
        for b, t in f.calls():
            c = callee(t) or ""
            if not (c.endswith("io::Write>::write") or c.endswith("io::Write::write") or c.endswith("io::Read>::read") or c.endswith("io::Read::read")):
                continue
            n += 1
            p = p or Prov(f)
            origin = ("call", b, c)
            # the count itself: the usize locals that come out of this call's result (the error half goes its own way)
            derived = {l for l in range(len(f.locals)) if origin in p.roots(l) and (f.local_ty(l) or "").replace("&", "").strip() == "usize"}
            used = False
            if not derived:
                # the result is not taken apart here (handed on whole): whoever gets it can look at the count
                used = any(origin in p.roots(l) for l in (0,))
            for bb, i, st in f.stmts():
                if st["k"] == "assign" and st["rv"]["k"] in ("binop", "unop", "cast"):
                    if any(pl["local"] in derived for pl in mir.rv_places(st["rv"])):
                        used = True
            for bb, tt in f.calls():
                if bb == b:
                    continue
                cc = callee(tt) or ""
                if cc.endswith("Try>::branch") or cc.endswith("Try::branch") or cc.endswith("from_residual") or cc.endswith("::drop") or \
                        cc.endswith("FromResidual>::from_residual"):
                    continue
                if any(mir.op_local(a) in derived for a in tt["args"]):
                    used = True
            if 0 in derived:
                used = True                    # handed to the caller, who can look at it
            key = "io-amount/%s/%s" % (f.name, c.rsplit("::", 1)[-1])
            ctx.inst(rule_id, key, {"count_used": used})
            ctx.oblige(used)
            if not used:
                ctx.report(rule_id, key, "%s calls %s and throws the returned byte count away: when the stream takes only part of the text "
                           "(standard output is line-buffered with a small buffer; a pipe may be full) the rest is lost without any error — "
                           "what the program displayed is not what is written" % (f.name, c), where_of(f, t))
    return n
