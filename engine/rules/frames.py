"""Frame provenance of a user-procedure application (shared by C01-scope-extend, C02-iteration-is-application and
C03-fresh-frame).

The *body frame* is the environment apply_scheme_procedure binds the parameters in and evaluates the body in.  It must be a
frame created for this one application, as a child of the frame the applied closure captured — wherever in the code the
creation sits:

  case A  the frame is created inside apply_scheme_procedure: every use of the body frame derives only from
          `LexicalScope::new_child(p)` calls in that function, p derives only from one parameter (the captured frame), the
          creation is not in a loop; at the call site in the trampoline that parameter is `.1` of the Procedure::User
          being applied;
  case B  the frame is a parameter of apply_scheme_procedure: at every call site the argument derives only from a
          `new_child(p)` call that sits in the same loop iteration as the call (so nothing is carried over from an earlier
          turn of the trampoline), and p is `.1` of the Procedure::User being applied.

Anything else (a frame taken from an Option carried around the loop, a frame derived from the caller's `env`, nested
children per definition, ...) is reported."""
from . import mir
from .mir import callee, callee_matches, Prov
from .ctx import where_of

INTERP = "interpreter::interpreter::Interpreter::"
NEW_CHILD = "environment::LexicalScope::new_child"


class Result:
    def __init__(self):
        self.problems = []      # (key, message, where)
        self.instances = []     # (key, detail)
        self.case = None
        self.makers = set()     # functions that create the body frame
        self.creation = []      # (func, block, term) of the accepted new_child calls
        self.closure_param = None

    def bad(self, key, msg, where=None):
        self.problems.append((key, msg, where))


_CACHE = {}


def analyse(fb):
    if id(fb) in _CACHE:
        return _CACHE[id(fb)]
    from .c01 import field_path, _through_deref
    r = Result()
    _CACHE[id(fb)] = r
    asp = fb.find(INTERP + "apply_scheme_procedure")
    ap = fb.find(INTERP + "apply_procedure")
    ee = fb.find(INTERP + "eval_expression")
    ete = fb.find(INTERP + "eval_tail_expression")
    pa = Prov(asp)
    # frame creators: new_child itself, and local helpers that return a frame whose only origin is new_child(parent) with the
    # parent taken from exactly one parameter (e.g. a `new_call_frame(formals, closure, args)` that also binds the arguments)
    creators = {NEW_CHILD: 1}
    for g in fb.all("lib"):
        if "{closure" in g.name or g.name == asp.name or "LexicalScope" not in (g.ret_ty or "") or g.name.startswith("environment::"):
            continue
        pg = Prov(g)
        cr = pg.call_roots(0)
        if {c for _, c in cr} != {NEW_CHILD} or pg.arg_roots(0) or len(cr) != 1:
            continue
        nb = next(iter(cr))[0]
        nt = g.blocks[nb]["term"]
        par_ar, par_cr = pg.arg_roots(nt["args"][0]), pg.call_roots(nt["args"][0])
        if len(par_ar) == 1 and not par_cr and nb not in g.loop_blocks():
            creators[g.name] = next(iter(par_ar))
            r.makers.add(g.name)
            r.instances.append(("frame-creator/%s" % g.name.rsplit("::", 1)[-1], {"parent_parameter": creators[g.name]}))
            # inside the helper, bindings go to the frame it creates
            for b, t in g.calls():
                if (callee(t) or "").endswith("LexicalScope::define"):
                    if {c for _, c in pg.call_roots(t["args"][0])} != {NEW_CHILD} or pg.arg_roots(t["args"][0]):
                        r.bad("define-target", "%s binds a name outside the frame it creates" % g.name, where_of(g, t))
            for c in fb.closures_of(g):
                for b, t in c.calls():
                    if callee_matches(t, "LexicalScope::define"):
                        root, path = field_path(c, _through_deref(c, t["args"][0]))
                        if root != 1:
                            r.bad("closure-define-target", "formals are bound through %s in %s" % (root, c.name), where_of(c, t))
    ops = []
    for b, t in asp.calls():
        c = callee(t) or ""
        if asp.blocks[b]["cleanup"]:
            continue
        if c in (ee.name, ete.name):
            ops.append(("body-env/" + c.rsplit("::", 1)[-1], t["args"][1], t))
        elif c.endswith("LexicalScope::define"):
            ops.append(("define-target", t["args"][0], t))
    for b, i, s in asp.stmts():
        if s["k"] == "assign" and s["rv"]["k"] == "aggregate" and s["rv"]["kind"]["k"] == "closure":
            for o in s["rv"]["ops"]:
                l = mir.op_local(o)
                if l is not None and "LexicalScope" in (asp.local_ty(l) or ""):
                    ops.append(("closure-capture", o, {"span": s["span"]}))
    if len(ops) < 4:
        r.bad("floor", "expected >= 4 uses of the body frame in apply_scheme_procedure (found %d)" % len(ops), where_of(asp))
    shapes = set()
    created_here = set()
    params = set()
    for what, o, t in ops:
        cr = pa.call_roots(o)
        ar = pa.arg_roots(o)
        names = {c for _, c in cr}
        if names and names <= set(creators) and not ar:
            shapes.add("A")
            created_here |= {b for b, _ in cr}
        elif not names and len(ar) == 1:
            shapes.add("B")
            params |= ar
        else:
            shapes.add("?")
            r.bad(what, "%s: the environment used here derives from %s%s, not only from a frame created for this application" % (
                what, sorted(names) or "no call", (" and parameters %s" % sorted(ar)) if ar else ""),
                where_of(asp, t) if "args" in t else where_of(asp, span=t["span"]))
    r.instances.append(("apply_scheme_procedure/body-frame-uses", {"uses": len(ops), "shapes": sorted(shapes)}))
    calls = [(g, b, t) for g, b, t in fb.call_sites(lambda t: callee(t) == asp.name)]
    if not calls:
        r.bad("call-sites", "apply_scheme_procedure has no caller", where_of(asp))
    psw = next(iter(mir.discriminant_switches(ap, "values::Procedure")), None)
    P = psw[1]["local"] if psw else None

    def closure_of_applied(g, o, what, where):
        """o must be (an Rc::clone of) `.1` of the Procedure::User the trampoline dispatched on"""
        l = mir.op_local(o)
        ds = mir.defs_of(g).get(l, []) if l is not None else []
        src = ds[0][2]["args"][0] if len(ds) == 1 and ds[0][0] == "call" and callee_matches(ds[0][2], "<std::rc::Rc as std::clone::Clone>::clone") else o
        root, path = field_path(g, _through_deref(g, src))
        pg = Prov(g)
        arr = pg.arg_roots(o)
        r.instances.append(("%s/closure-source" % g.name.rsplit("::", 1)[-1], {"root_local": root, "path": path, "arg_roots": sorted(arr)}))
        if g.name != ap.name or P is None:
            r.bad("apply_procedure/shape", "the frame is created in %s, not where the applied procedure is known" % g.name, where)
            return
        if root != P or path[-2:] != ["User", 1]:
            r.bad("apply_procedure/closure-source", "%s is not the `.1` (captured frame) of the Procedure::User being applied "
                  "(root %s path %s)" % (what, root, path), where)
        if 3 in arr:
            r.bad("apply_procedure/dynamic-scope", "%s derives from the caller's `env` (dynamic scoping)" % what, where)

    if shapes == {"A"}:
        r.case = "A"
        r.makers.add(asp.name)
        loops = asp.loop_blocks()
        kcs = set()
        for nb in sorted(created_here):
            t = asp.blocks[nb]["term"]
            r.creation.append((asp, nb, t))
            par = t["args"][creators[callee(t)] - 1]
            ar = pa.arg_roots(par)
            cr = {c for _, c in pa.call_roots(par)}
            r.instances.append(("apply_scheme_procedure/new_child", {"parent_arg_roots": sorted(ar), "parent_call_roots": sorted(cr)}))
            if cr or len(ar) != 1:
                r.bad("parent", "the new frame's parent derives from %s / parameters %s, expected only the captured frame of "
                      "the closure" % (sorted(cr), sorted(ar)), where_of(asp, t))
            else:
                kcs |= ar
            if nb in loops:
                r.bad("per-call", "the body frame is created inside a loop of apply_scheme_procedure (one frame per "
                      "definition / iteration instead of one per application)", where_of(asp, t))
        if len(created_here) != 1:
            r.bad("new_child", "the body frame comes from %d creation sites in apply_scheme_procedure (parameters, internal "
                  "definitions and body must share ONE frame)" % len(created_here), where_of(asp))
        if len(kcs) == 1:
            kc = next(iter(kcs))
            r.closure_param = kc
            for g, b, t in calls:
                closure_of_applied(g, t["args"][kc - 1], "the frame passed to apply_scheme_procedure", where_of(g, t))
    elif shapes == {"B"} and len(params) == 1:
        r.case = "B"
        kf = next(iter(params))
        for g, b, t in calls:
            pg = Prov(g)
            o = t["args"][kf - 1]
            cr = pg.call_roots(o)
            ar = pg.arg_roots(o)
            names = {c for _, c in cr}
            other = [x for x in pg.roots(mir.op_local(o)) if x[0] not in ("call", "arg")] if mir.op_local(o) is not None else []
            r.instances.append(("%s/frame-argument" % g.name.rsplit("::", 1)[-1], {"call_roots": sorted(names), "arg_roots": sorted(ar)}))
            if not names or not names <= set(creators) or ar:
                r.bad("new_child", "the frame handed to apply_scheme_procedure derives from %s%s, not only from a frame created "
                      "for this application (a frame from an earlier turn / another call is reused)" % (
                          sorted(names) or "no call", (" and parameters %s" % sorted(ar)) if ar else ""), where_of(g, t))
                continue
            r.makers.add(g.name)
            loops = [(head, body) for head, body in g.loops() if b in body]
            head, inner = min(loops, key=lambda x: len(x[1])) if loops else (None, None)
            for nb, _ in cr:
                nt = g.blocks[nb]["term"]
                r.creation.append((g, nb, nt))
                if inner is not None and nb not in inner:
                    r.bad("per-call", "the body frame is created outside the trampoline loop and reused by every turn", where_of(g, nt))
                elif inner is not None and mir.paths_avoiding(g, head, [b], [nb]) is not None:
                    r.bad("per-call", "a turn of the trampoline can reach the application without creating a new body frame "
                          "(the frame of an earlier turn would be reused)", where_of(g, nt))
                closure_of_applied(g, nt["args"][creators[callee(nt)] - 1], "the parent of the body frame", where_of(g, nt))
            if len(cr) != 1:
                r.bad("new_child", "the body frame comes from %d creation sites" % len(cr), where_of(g, t))
    elif "?" not in shapes:
        r.bad("new_child", "the uses of the body frame in apply_scheme_procedure do not agree on where the frame comes from "
              "(%s, parameters %s)" % (sorted(shapes), sorted(params)), where_of(asp))
    return r
