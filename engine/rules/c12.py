"""C12 — Import sets bind exactly the names the import-set algebra yields (structural part)."""
from . import mir
from .mir import callee, callee_matches, Prov
from .ctx import where_of

EXPLANATION = (
    'Import-set algebra table by abstract interpretation of eval_import_set: 41 import sets (each of only / '
    'except / prefix / rename alone and every nesting of two) over a library exporting a, b, c yield exactly the '
    "names the algebra yields, each bound to the library's own value (identity of opaque tokens); (union) "
    'eval_import with two sets defines the union in the target environment, a failing set defines nothing; '
    '(keywords) the parser maps (only ...) (except ...) (prefix ...) (rename ...) on datum skeletons to their '
    'constructors with sub-set and payload in the right fields; (deterministic) census of hash-map iterations: '
    'order reaches only order-insensitive sinks.')
NOT_DECIDED = ("equality of the resulting binding set with the algebra over all nested terms (only the per-operator "
               "facts that compose to it); behaviour on inadmissible terms (colliding renames).")

KEYWORDS = {"only": "Only", "except": "Except", "prefix": "Prefix", "rename": "Rename"}


def bool_source(f, local, depth=0):
    """Resolve a bool local to (call terminator, parity) through Not / ==false / copies."""
    if depth > 8:
        return None
    ds = mir.defs_of(f).get(local, [])
    if len(ds) != 1:
        return None
    d = ds[0]
    if d[0] == "call":
        return (d[2], True)
    rv = d[3]["rv"]
    if rv["k"] == "use":
        l = mir.op_local(rv["op"])
        return bool_source(f, l, depth + 1) if l is not None else None
    if rv["k"] == "unop" and rv["op"] == "Not":
        l = mir.op_local(rv["operand"])
        r = bool_source(f, l, depth + 1) if l is not None else None
        return (r[0], not r[1]) if r else None
    if rv["k"] == "binop" and rv["op"] in ("Eq", "Ne"):
        for a, b in ((rv["l"], rv["r"]), (rv["r"], rv["l"])):
            cv = mir.const_val(b)
            l = mir.op_local(a)
            if isinstance(cv, bool) and l is not None:
                r = bool_source(f, l, depth + 1)
                if not r:
                    return None
                same = (rv["op"] == "Eq") == cv
                return (r[0], r[1] if same else not r[1])
    return None


def field_of_arg(f, o, argi):
    """If operand o is (a reference to / copy of) field k of parameter argi, return k."""
    s, chain = mir.trace_place(f, o)
    nm = f.local_name(argi) or ("_%d" % argi)
    for k in ("0", "1"):
        if s == "%s.%s" % (nm, k) or s == "_%d.%s" % (argi, k):
            return int(k)
    return None


def run(ctx):
    fb = ctx.fb()
    ctx.trust("rustc nightly MIR; closure bodies are linked to their arm through the closure aggregate")
    ctx.assume("admissible import-set terms have no colliding renames / prefixes (R7RS)")

    # ------------------------------------------------------------------ C12-keywords
    ctx.rule("C12-keywords", "the parser maps only/except/prefix/rename to the constructors of the same name, "
                             "anything else to a library name")
    from . import importtables as _it
    d_kw = _it.rule_keywords(ctx, "C12-keywords")

    def _old_keywords():
        tis = fb.find("parser::parser::Parser::transform_import_set")
        tests = {lit: (b, tt, ft) for b, lit, tt, ft in mir.string_tests(tis)}
        for kw, variant in KEYWORDS.items():
            if kw not in tests:
                ctx.report("C12-keywords", kw, "keyword %r is not tested by the import-set parser" % kw, where_of(tis))
                continue
            b, tt, ft = tests[kw]
            region = mir.dominated_region(tis, tt)
            built = sorted({v for _, _, _, _, v in mir.aggregates(tis, region, "ImportSetBody")})
            ctx.inst("C12-keywords", kw, {"constructs": built})
            if built != [variant]:
                ctx.report("C12-keywords", kw, "keyword %r constructs %s, expected [%s]" % (kw, built, variant), where_of(tis))
        extra = [k for k in tests if k not in KEYWORDS]
        if extra:
            ctx.note("additional import keywords tested: %s" % extra)
        # the fall-through builds Direct
        allv = {v for _, _, _, _, v in mir.aggregates(tis, None, "ImportSetBody")}
        if "Direct" not in allv:
            ctx.report("C12-keywords", "direct", "no ImportSetBody::Direct is built", where_of(tis))
        # field order inside each constructor: .0 = sub import set (Box), .1 = payload
        for b, i, s, adt, v in mir.aggregates(tis, None, "ImportSetBody"):
            if v in ("Only", "Except", "Prefix", "Rename"):
                p = Prov(tis)
                r0 = {c for _, c in p.call_roots(s["rv"]["ops"][0])}
                ok0 = any((c or "").endswith("transform_import_set") for c in r0)
                ctx.inst("C12-keywords", "%s/field0" % v, {"roots": sorted(x for x in r0 if x)[:4]})
                if not ok0:
                    ctx.report("C12-keywords", "%s/field0" % v, "the sub import set of %s does not come from the recursive "
                               "parse" % v, where_of(tis))

    ctx.guarded("C12-keywords", d_kw >= 5, _old_keywords)

    # ------------------------------------------------------------------ import-set algebra (decision tables, importtables.py)
    ctx.rule("C12-polarity", "`only` keeps and `except` drops the listed names; membership is tested on the binding's "
                             "name against the operator's own identifier list")
    ctx.rule("C12-prefix", "prefix precedes the name")
    ctx.rule("C12-rename-simultaneous", "renames are applied simultaneously: one lookup keyed by the incoming name per binding")
    ctx.rule("C12-values-untouched", "each name keeps the value the library exports under the original name")
    ctx.rule("C12-nesting", "nested import sets compose: the outer operator sees exactly what the inner one yields")
    ctx.rule("C12-union", "several import sets contribute their union; every resulting binding is defined in the "
                          "target environment; a failing set defines nothing")
    from . import importtables
    d_alg = importtables.rule_algebra(ctx, {"only": "C12-polarity", "except": "C12-polarity", "prefix": "C12-prefix",
                                            "rename": "C12-rename-simultaneous", "values": "C12-values-untouched", "nested": "C12-nesting",
                                            "default": "C12-values-untouched"})
    d_uni = importtables.rule_union(ctx, "C12-union")
    # declarations of two and three real import sets (the same library, overlapping names): the union, whatever the order
    d_uni += importtables.rule_declarations(ctx, "C12-union")

    def _old_arms():
        # ------------------------------------------------------------------ arms of eval_import_set
        eis = fb.find("interpreter::interpreter::Interpreter::eval_import_set")
        sws = list(mir.discriminant_switches(eis, "ImportSetBody"))
        if not sws:
            raise mir.AnchorMissing("eval_import_set does not dispatch on ImportSetBody")
        sb, place, adt, targets, other = sws[0]
        vidx = dict((n, i) for i, n in fb.variants("ImportSetBody"))
        arms = {}
        for name, i in vidx.items():
            tgt = targets.get(i, other)
            arms[name] = mir.dominated_region(eis, tgt)
        closures = {c.name: c for c in fb.closures_of(eis)}

        def arm_closures(name, via):
            """closures built in the arm and handed to Iterator::<via>."""
            out = []
            for b, i, s in eis.stmts(arms[name]):
                if s["k"] == "assign" and s["rv"]["k"] == "aggregate" and s["rv"]["kind"]["k"] == "closure":
                    cn = mir.norm(s["rv"]["kind"]["def"])
                    dst = s["place"]["local"]
                    for bb, t in eis.calls(arms[name]):
                        if callee_matches(t, "std::iter::Iterator::" + via) and any(mir.op_local(a) == dst for a in t["args"]):
                            out.append((closures[cn], s, t))
            return out

        def recursion_in(name):
            return [(b, t) for b, t in eis.calls(arms[name]) if callee(t) == eis.name]

        # ------------------------------------------------------------------ C12-polarity
        ctx.rule("C12-polarity", "`only` keeps and `except` drops the listed names; membership is tested on the binding's "
                                 "name against the operator's own identifier list")
        for name, want in (("Only", True), ("Except", False)):
            cl = arm_closures(name, "filter")
            if len(cl) != 1 or len(recursion_in(name)) != 1:
                ctx.report("C12-polarity", name + "/shape", "shape not recognised: %d filter closure(s), %d recursive call(s)"
                           % (len(cl), len(recursion_in(name))), where_of(eis))
                continue
            c, s, t = cl[0]
            src = bool_source(c, 0)
            ctx.inst("C12-polarity", name, {"closure": c.name, "source": callee(src[0]) if src else None,
                                            "keeps_members": src[1] if src else None})
            if not src or not callee_matches(src[0], "HashSet::contains", "contains", "HashMap::contains_key"):
                ctx.report("C12-polarity", name + "/shape", "filter predicate shape not recognised", where_of(c))
                continue
            if src[1] != want:
                ctx.report("C12-polarity", name + "/polarity", "%s %s the listed names" % (
                    name.lower(), "keeps" if src[1] else "drops"), where_of(c))
            # tested key = name component (.0) of the item
            key = src[0]["args"][1]
            s_key, _ = mir.trace_place(c, key)
            if not s_key.endswith(".0"):
                ctx.report("C12-polarity", name + "/key", "membership is tested on %s, not on the binding's name" % s_key,
                           where_of(c))
            # the set is the closure's capture, which derives from this variant's identifier list (.1)
            p = Prov(eis)
            cap = s["rv"]["ops"][0] if s["rv"]["ops"] else None
            ok = False
            if cap is not None:
                reach = p.taint_reach(mir.op_local(cap))
                for bb, ii, ss in eis.stmts(arms[name]):
                    if ss["k"] == "assign" and ss["place"]["local"] in reach and ss["rv"]["k"] == "ref":
                        pr = ss["rv"]["place"]["proj"]
                        if any(e["k"] == "downcast" and e.get("variant") == name for e in pr) and \
                                any(e["k"] == "field" and e["i"] == 1 for e in pr):
                            ok = True
            if not ok:
                ctx.report("C12-polarity", name + "/set", "the membership set does not derive from the identifier list of "
                           "the %s term" % name.lower(), where_of(eis, t))
            # filter is applied to the recursive result
            recv = p.call_roots(t["args"][0])
            if not any(cn == eis.name for _, cn in recv):
                ctx.report("C12-polarity", name + "/input", "filter is not applied to the recursive result", where_of(eis, t))

        # ------------------------------------------------------------------ C12-prefix
        ctx.rule("C12-prefix", "prefix precedes the name: format!(\"{}{}\", prefix, name)")
        cl = arm_closures("Prefix", "map")
        if len(cl) != 1 or len(recursion_in("Prefix")) != 1:
            ctx.report("C12-prefix", "shape", "shape not recognised: %d map closure(s)" % len(cl), where_of(eis))
        else:
            c, s, t = cl[0]
            fcs = list(mir.format_calls(c))
            concat = [(b, tt) for b, tt in c.calls() if callee_matches(tt, "String::push_str", "std::ops::Add>::add", "concat")]
            if len(fcs) == 1 and fcs[0][2] is not None:
                _, _, pieces, kinds, ops = fcs[0]
                lits = [p for p in pieces if isinstance(p, str)]
                args = [p for p in pieces if not isinstance(p, str)]
                srcs = [mir.trace_place(c, ops[a[1]])[0] for a in args]
                ctx.inst("C12-prefix", "template", {"pieces": ["{}" if not isinstance(p, str) else p for p in pieces], "args": srcs})
                if lits or len(args) != 2:
                    ctx.report("C12-prefix", "template", "prefix template is %r" % (pieces,), where_of(c))
                else:
                    a0 = mir.trace_access(c, ops[args[0][1]])
                    a1 = mir.trace_access(c, ops[args[1][1]])
                    ctx.inst("C12-prefix", "args", {"first": a0, "second": a1})
                    # parameter 1 = closure environment (captured prefix), parameter 2 = the (name, value) item
                    if not (a0[0] == 1 and a1[0] == 2 and a1[1][:1] == [0]):
                        ctx.report("C12-prefix", "order", "the new name is not prefix followed by name (placeholders fed "
                                   "from %s, %s)" % (srcs[0], srcs[1]), where_of(c))
            elif concat:
                ctx.report("C12-prefix", "shape", "string concatenation shape not recognised (fail closed)", where_of(c))
            else:
                ctx.report("C12-prefix", "shape", "no format!/concatenation found in the prefix closure", where_of(c))
            _values_untouched(ctx, c, "Prefix")

        # ------------------------------------------------------------------ C12-rename-simultaneous
        ctx.rule("C12-rename-simultaneous", "one map old->new, one lookup keyed by the incoming name per binding")
        cl = arm_closures("Rename", "map")
        rec = recursion_in("Rename")
        if len(rec) != 1:
            ctx.report("C12-rename-simultaneous", "shape", "expected one recursive call in the rename arm", where_of(eis))
        arm_loops = eis.loop_blocks() & arms["Rename"]
        if arm_loops:
            ctx.report("C12-rename-simultaneous", "loop", "the rename arm loops over the renames (sequential application?) "
                       "blocks %s" % sorted(arm_loops), where_of(eis))
        folds = [t for b, t in eis.calls(arms["Rename"]) if callee_matches(t, "Iterator::fold", "Iterator::try_fold",
                                                                           "Iterator::for_each", "Iterator::scan")]
        if folds:
            ctx.report("C12-rename-simultaneous", "fold", "the rename arm folds over the rename list", where_of(eis, folds[0]))
        builder = None
        lookup = None
        for c, s, t in cl:
            gets = [(b, tt) for b, tt in c.calls() if callee_matches(tt, "HashMap::get", "BTreeMap::get")]
            if gets:
                lookup = (c, s, t, gets)
            else:
                builder = (c, s, t)
        if not lookup:
            ctx.report("C12-rename-simultaneous", "lookup", "no map lookup found in the rename arm (shape not recognised)",
                       where_of(eis))
        else:
            c, s, t, gets = lookup
            if len(gets) != 1:
                ctx.report("C12-rename-simultaneous", "lookup", "expected one lookup per binding, found %d" % len(gets), where_of(c))
            key = gets[0][1]["args"][1]
            pc = Prov(c)
            reach = pc.reach_locals(mir.op_local(key))
            name_like = any(st["k"] == "assign" and st["place"]["local"] in reach and
                            any(pp["local"] == 2 and any(e["k"] == "field" and e["i"] == 0 for e in pp["proj"])
                                for pp in mir.rv_places(st["rv"])) for _, _, st in c.stmts())
            ctx.inst("C12-rename-simultaneous", "lookup", {"closure": c.name, "key_from_incoming_name": name_like})
            if not name_like:
                ctx.report("C12-rename-simultaneous", "key", "the rename lookup is not keyed by the incoming name", where_of(c))
            # Some-arm: new name derives from the lookup result; None-arm: from the incoming name
            sw = mir.result_switch_after(c, gets[0][0])
            if sw:
                some_t, none_t = sw[1].get(1, sw[2]), sw[1].get(0, sw[2])
                for label, tgt, want_lookup in (("some", some_t, True), ("none", none_t, False)):
                    region = mir.dominated_region(c, tgt)
                    for b, i, st in c.stmts(region):
                        if st["k"] == "assign" and st["place"]["local"] == 0 and st["rv"]["k"] == "aggregate":
                            r = pc.op_roots(st["rv"]["ops"][0])
                            from_lookup = any(x[0] == "call" and (x[2] or "").endswith("::get") for x in r)
                            ctx.inst("C12-rename-simultaneous", label + "-arm", {"name_from_lookup": from_lookup})
                            if from_lookup != want_lookup:
                                ctx.report("C12-rename-simultaneous", label + "-arm", "in the %s arm the new name %s from "
                                           "the rename table" % (label, "derives" if from_lookup else "does not derive"), where_of(c))
            else:
                ctx.report("C12-rename-simultaneous", "lookup", "lookup result is not matched", where_of(c))
            _values_untouched(ctx, c, "Rename")
        if builder:
            c, s, t = builder
            # (from, to) orientation: tuple(.0, .1)
            for b, i, st in c.stmts():
                if st["k"] == "assign" and st["place"]["local"] == 0 and st["rv"]["k"] == "aggregate":
                    f0 = field_of_arg(c, st["rv"]["ops"][0], 2)
                    f1 = field_of_arg(c, st["rv"]["ops"][1], 2)
                    ctx.inst("C12-rename-simultaneous", "builder", {"key_field": f0, "value_field": f1})
                    if (f0, f1) != (0, 1):
                        ctx.report("C12-rename-simultaneous", "builder", "the rename table maps field %s to field %s of each "
                                   "(old new) pair, expected old->new" % (f0, f1), where_of(c))
        elif lookup:
            ctx.note("rename table built without a closure (direct collect)")

        # ------------------------------------------------------------------ C12-values-untouched (Direct arm)
        ctx.rule("C12-values-untouched", "each name keeps the value the library exports under the original name")
        cl = arm_closures("Direct", "map")
        for c, s, t in cl:
            _values_untouched(ctx, c, "Direct")
        if not cl:
            ctx.note("Direct arm copies bindings without a closure")

    ctx.guarded("C12-polarity", d_alg >= 41, _old_arms)

    def _old_union():
        eis = fb.find("interpreter::interpreter::Interpreter::eval_import_set")
        # ------------------------------------------------------------------ C12-union
        ctx.rule("C12-union", "several import sets contribute their union; every resulting binding is defined in the "
                              "target environment")
        ei = fb.find("interpreter::interpreter::Interpreter::eval_import")
        loops = ei.loop_blocks()
        calls = [(b, t) for b, t in ei.calls() if callee(t) == eis.name]
        ext = [(b, t) for b, t in ei.calls() if callee_matches(t, "std::iter::Extend>::extend", "HashMap::insert")]
        defs = [(b, t) for b, t in ei.calls() if callee_matches(t, "LexicalScope::define")]
        ctx.inst("C12-union", "eval_import", {"eval_import_set_calls": len(calls), "extend": len(ext), "define": len(defs)})
        if len(calls) != 1 or calls[0][0] not in loops:
            ctx.report("C12-union", "loop", "eval_import does not evaluate every import set in a loop", where_of(ei))
        if not defs or any(b not in loops for b, _ in defs):
            ctx.report("C12-union", "define", "bindings are not defined one by one in a loop", where_of(ei))
        else:
            p = Prov(ei)
            for b, t in defs:
                # environment = parameter 3 (env); name/value from the merged map which derives from eval_import_set
                if 3 not in p.arg_roots(t["args"][0]):
                    ctx.report("C12-union", "target", "bindings are defined in an environment other than the `env` argument",
                               where_of(ei, t))
                for k in (1, 2):
                    if eis.name not in p.taint_calls(mir.op_local(t["args"][k])):
                        ctx.report("C12-union", "source", "defined %s does not derive from the evaluated import sets" % (
                            "name" if k == 1 else "value"), where_of(ei, t))
                s1, _ = mir.trace_place(ei, t["args"][1])
                s2, _ = mir.trace_place(ei, t["args"][2])
                ctx.inst("C12-union", "define-args", {"name": s1, "value": s2})
                if not (s1.endswith(".0") and s2.endswith(".1")):
                    ctx.report("C12-union", "pair-order", "define(name, value) is fed from %s / %s" % (s1, s2), where_of(ei, t))
        # every failing set aborts the import (`?`), nothing is defined before all sets are evaluated
        if calls and defs:
            dom = ei.dominators()
            loop_exit_ok = True
            for b, t in defs:
                # the define loop must not be able to reach the evaluation loop again
                if calls[0][0] in ei.reachable(b):
                    loop_exit_ok = False
            if not loop_exit_ok:
                ctx.report("C12-union", "atomic", "definitions start before all import sets are evaluated", where_of(ei))

    ctx.guarded("C12-union", d_uni >= 3, _old_union)

    # ------------------------------------------------------------------ C12-deterministic
    ctx.rule("C12-deterministic", "hash-iteration order reaches only order-insensitive sinks")
    # decided on the import sets themselves: the same bindings under all six iteration orders of a three-export library
    importtables.rule_order_independent(ctx, "C12-deterministic")
    HASH_ITER = ("std::collections::HashMap::iter", "std::collections::HashMap::keys", "std::collections::HashMap::values",
                 "std::collections::HashMap::drain", "std::collections::HashMap::into_keys", "std::collections::HashMap::into_values",
                 "<std::collections::HashMap as std::iter::IntoIterator>::into_iter",
                 "<&std::collections::HashMap as std::iter::IntoIterator>::into_iter",
                 "std::collections::HashMap::iter_mut", "std::collections::HashMap::values_mut",
                 "std::collections::HashSet::iter", "std::collections::HashSet::drain",
                 "<std::collections::HashSet as std::iter::IntoIterator>::into_iter",
                 "<&std::collections::HashSet as std::iter::IntoIterator>::into_iter")
    ALLOW = {
        "interpreter::library::Library::iter_definitions": "exports flow to eval_import_set -> HashMap::extend -> define "
                                                            "(distinct keys; order-insensitive)",
        "interpreter::interpreter::Interpreter::eval_import": "merged map -> define per entry (distinct keys)",
        "interpreter::interpreter::Interpreter::append_lib_loader": "map -> map extend",
        "interpreter::interpreter::LibraryLoader::iter_library_names": "embedding API, not used by import evaluation",
        "environment::LexicalScope::iter_local_definitions": "embedding/test API, not used by evaluation",
        "parser::macros::<impl error::Located<parser::macros::SyntaxPatternBody>>::match_datum_stream":
            "per-variable push keyed by the variable (distinct keys)",
    }
    import json as _json, os as _os
    try:
        known_fns = set(_json.load(open(_os.path.join(_os.path.dirname(_os.path.dirname(_os.path.abspath(__file__))), "c07_baseline.json"))).get("functions", []))
    except Exception:
        known_fns = set()
    ei = fb.find("interpreter::interpreter::Interpreter::eval_import")
    eis = fb.find("interpreter::interpreter::Interpreter::eval_import_set")
    ext = [(b, t) for g in [ei] + fb.closures_of(ei) for b, t in g.calls() if callee_matches(t, "std::iter::Extend>::extend", "HashMap::insert")]
    for f in fb.all("lib"):
        if f.derived:
            continue
        for b, t in f.calls():
            c = callee(t) or ""
            if c in HASH_ITER:
                owner = f.name.split("::{closure")[0]
                ctx.inst("C12-deterministic", "%s/%s" % (owner, c.rsplit("::", 1)[-1]))
                if owner not in ALLOW and known_fns and owner not in known_fns:
                    ctx.undecided("C12-deterministic", "%s/%s" % (owner, c.rsplit("::", 1)[-1]),
                                  "%s (a function that does not exist on the pinned tree) iterates a hash container (%s)" % (owner, c), where_of(f, t))
                elif owner not in ALLOW:
                    ctx.report("C12-deterministic", "%s/%s" % (owner, c.rsplit("::", 1)[-1]),
                               "%s iterates a hash container (%s); its order is not proved irrelevant" % (owner, c),
                               where_of(f, t))
    # sink check for the export iteration: eval_import_set's Direct arm collects, eval_import extends a HashMap
    if not ext:
        ctx.undecided("C12-deterministic", "eval_import/sink", "the merged bindings are not accumulated in a map "
                   "(order-insensitive sink missing)", where_of(ei))
    for b, t in ei.calls():
        if callee_matches(t, "Iterator::next") and False:
            pass
    # positional selection on hash-ordered sequences in the import path
    for f in (eis, ei):
        for b, t in f.calls():
            if callee_matches(t, "Iterator::last", "Iterator::nth", "<impl [T]>::first", "<impl [T]>::last",
                              "Iterator::max", "Iterator::min", "Iterator::position", "Vec::dedup", "Iterator::take",
                              "Iterator::skip", "Iterator::rev", "Vec::truncate"):
                # (sorting is not in the list: it replaces the hash order by a defined one.)  Only a sequence of bindings counts —
                # its items carry values; a list of identifiers from the import set's own text has a defined order
                recv_ty = (t.get("argtys") or [""])[0] + " " + " ".join(str(x) for x in ((t.get("fn") or {}).get("generics") or []))
                if "Value<" not in recv_ty and "values::Value" not in recv_ty:
                    continue
                ctx.report("C12-deterministic", "%s/positional" % f.name, "positional / selecting operation %s on the "
                           "binding sequence (hash-ordered)" % callee(t), where_of(f, t))
    ctx.floor("C12-deterministic", 3)
    return EXPLANATION, NOT_DECIDED


def _values_untouched(ctx, c, arm):
    """In closure c (item = parameter 2, a (name, value) pair) every returned pair's .1 derives from item.1."""
    pc = Prov(c)
    n = 0
    for b, i, st in c.stmts():
        if st["k"] == "assign" and st["place"]["local"] == 0 and st["rv"]["k"] == "aggregate" \
                and st["rv"]["kind"]["k"] == "tuple" and len(st["rv"]["ops"]) == 2:
            n += 1
            o = st["rv"]["ops"][1]
            reach = pc.reach_locals(mir.op_local(o)) if mir.op_local(o) is not None else set()
            from1 = any(s2["k"] == "assign" and s2["place"]["local"] in reach and
                        any(pp["local"] == 2 and any(e["k"] == "field" and e["i"] == 1 for e in pp["proj"])
                            for pp in mir.rv_places(s2["rv"])) for _, _, s2 in c.stmts())
            roots = pc.op_roots(o)
            foreign = [r for r in roots if r[0] in ("const",) or (r[0] == "call" and not (r[2] or "").endswith("clone"))]
            ctx.inst("C12-values-untouched", "%s/%s" % (arm, c.name.rsplit("::", 1)[-1]), {"value_from_item_value": from1})
            if not from1 or foreign:
                ctx.report("C12-values-untouched", arm, "in the %s arm the bound value does not derive solely from the "
                           "library's value (foreign roots: %s)" % (arm, foreign), where_of(c))
    if n == 0:
        ctx.report("C12-values-untouched", arm + "/shape", "no (name, value) pair construction found (shape not "
                   "recognised)", where_of(c))
