"""C11 — The list library computes what its specification says (narrow structural part)."""
import re
from . import mir, registry, absint
from .mir import callee, callee_matches, Prov
from .ctx import where_of

EXPLANATION = (
    '(tables) every list procedure of scheme/base.sld named in the property — the twelve c[ad]{2,3}r, list, make- '
    'list, null?, list?, append, map, for-each, fold-left, fold-right, list-tail, list-ref, last-pair, memq, '
    "memv, equal? — is evaluated by abstract interpretation of its Scheme source (the framework's own reader, "
    'derived forms expanded with the bundled grammar.sld; engine/scm/listeval.py) on symbolic lists: opaque atoms '
    'compared by identity, numbers of equal value and different exactness, proper lists of length 0..3, improper '
    'and nested lists, every index from 0 to one past the end, and an opaque procedure argument whose calls are '
    'the events; result, sequence of calls and the error on a too-short list must agree with the R7RS (folds: '
    'minischeme) definition written out in the checker; (scope) every procedure named in the property is exported '
    'and defined or imported and every free identifier of an exported procedure resolves; (arity) every internal '
    'call passes an acceptable number of arguments; (native) car/cdr return the matching component and raise '
    'TypeMisMatch on the empty list and on non-pairs, cons builds (first . second), pair? is false on ().  The '
    'natives the library imports are the small models of listeval.py, each the contract a Rust-side rule decides '
    '(C11-native, C10-eqv, C01-apply-spread, C01-once).')
NOT_DECIDED = ('lists longer than 3 and nesting deeper than the rows (the recursion schemes are uniform, but that is not proved), random compositions of library calls, and apply (native: only its spreading is decided, by C01).')

PROCS = ["car", "cdr", "cons", "caar", "cadr", "cdar", "cddr", "caaar", "caadr", "cadar", "caddr", "cdaar", "cdadr", "cddar", "cdddr",
         "list", "make-list", "null?", "pair?", "list?", "append", "map", "for-each", "fold-left", "fold-right", "list-tail",
         "list-ref", "last-pair", "memq", "memv", "equal?", "apply"]
NATIVE = "interpreter::library::native::base::"


def run(ctx):
    from scm import library, derived, semantics
    from scm.reader import Sym, SList
    fb = ctx.fb()
    ctx.trust("the framework's reader and expander model for the bundled Scheme sources; native registration table read from MIR")
    mf = derived.load()
    lib = library.load(library.BASE)
    regs = {r["name"]: r for r in registry.read(fb)}
    GR = library.BASE
    for pmsg in lib.problems:
        ctx.report("C11-scope", "library/" + pmsg.split(" ")[0], pmsg, GR)
    # the import of the native table
    imports = [repr(i) for i in lib.imports]
    ctx.inst("C11-scope", "imports", imports)
    natives = set(regs) if any("ruschm" in i and "base" in i for i in imports) else set()
    if not natives:
        ctx.report("C11-scope", "import/ruschm-base", "(scheme base) does not import (ruschm base): %s" % imports, GR)
    keywords = set(mf.macros) | {"lambda", "if", "quote", "set!", "define", "define-syntax"}

    # ------------------------------------------------------------------ C11-scope
    ctx.rule("C11-scope", "every procedure named in the property exists, is exported, and is closed")
    ext = {e: i for i, e in lib.exports}
    for p in PROCS:
        ok = p in ext and (ext[p] in lib.defs or ext[p] in natives)
        ctx.inst("C11-scope", "export/" + p, {"exported": p in ext, "defined": ext.get(p) in lib.defs, "native": ext.get(p) in natives})
        if not ok:
            ctx.report("C11-scope", "export/" + p, "%s is %s by (scheme base)" % (p, "exported but neither defined nor imported" if p in ext else "not exported"), GR)
    for internal, external in lib.exports:
        if internal not in lib.defs and internal not in natives:
            ctx.report("C11-scope", "export-unbound/" + internal, "exported name %s is neither defined in the library nor imported (the export "
                       "loop raises UnboundedSymbol and the whole of (scheme base) fails to load)" % internal, GR)
    # closure of exported procedures
    reach, todo = set(), [i for i, e in lib.exports if i in lib.defs]
    info = {}
    while todo:
        n = todo.pop()
        if n in reach:
            continue
        reach.add(n)
        try:
            free, calls, cbody, bound = library.analyse_def(mf, lib, n)
        except semantics.NoRule as e:
            ctx.report("C11-scope", "expand/" + n, "the body of %s uses a derived form that no bundled rule accepts: %s" % (n, e), GR)
            continue
        info[n] = (free, calls, cbody, bound)
        for v in sorted(free):
            if v in lib.defs:
                todo.append(v)
            elif v in natives or v in keywords:
                pass
            else:
                ctx.report("C11-scope", "free/%s/%s" % (n, v), "%s refers to `%s`, which is neither defined in the library, imported, a parameter "
                           "nor a keyword" % (n, v), GR)
        ctx.inst("C11-scope", "closed/" + n, {"free": sorted(free)})
    unreach = [n for n in lib.defs if n not in reach]
    for n in unreach:
        try:
            free, calls, cbody, bound = library.analyse_def(mf, lib, n)
            bad = [v for v in free if v not in lib.defs and v not in natives and v not in keywords]
            if bad:
                ctx.note("unexported helper %s refers to unbound %s (outside the property: never reachable from an export)" % (n, bad))
        except semantics.NoRule as e:
            ctx.note("unexported helper %s does not expand: %s" % (n, e))
    ctx.floor("C11-scope", 40)

    # ------------------------------------------------------------------ C11-arity
    ctx.rule("C11-arity", "internal calls pass an acceptable number of arguments")
    n_calls = 0
    for n, (free, calls, cbody, bound) in sorted(info.items()):
        for op, nargs, shadowed, term in calls:
            if shadowed:
                continue
            sig = None
            if op in lib.defs and lib.defs[op][0] is not None:
                sig = (len(lib.defs[op][0][0]), lib.defs[op][0][1] is not None)
            elif op in natives and op not in lib.defs:
                sig = (regs[op]["fixed"], regs[op]["variadic"])
            if sig is None:
                continue
            n_calls += 1
            ok = nargs >= sig[0] and (sig[1] or nargs == sig[0])
            ctx.inst("C11-arity", "%s->%s/%d" % (n, op, nargs), {"accepts": "%d%s" % (sig[0], "+" if sig[1] else "")}, nontrivial=False)
            if not ok:
                ctx.report("C11-arity", "%s->%s/%d" % (n, op, nargs), "%s calls %s with %d argument(s); it accepts %d%s" % (
                    n, op, nargs, sig[0], " or more" if sig[1] else ""), GR)
            if op == "apply" and nargs >= 2:
                # (apply f a ... lst): f with at least the leading arguments
                f = term[1]
                if isinstance(f, Sym) and f.name in lib.defs and lib.defs[f.name][0] is not None:
                    fs = lib.defs[f.name][0]
                    lead = nargs - 2
                    if lead > len(fs[0]) and fs[1] is None:
                        ctx.report("C11-arity", "%s->apply:%s/%d" % (n, f.name, lead), "%s applies %s to at least %d arguments; it accepts %d" % (
                            n, f.name, lead, len(fs[0])), GR)
    if n_calls < 40:
        ctx.undecided("C11-arity", "floor", "only %d resolvable calls found in base.sld" % n_calls, GR)

    # ------------------------------------------------------------------ C11-tables
    ctx.rule("C11-tables", "every list procedure of base.sld named in the property, evaluated by abstract interpretation of its Scheme "
                           "source on symbolic lists (proper 0..3, improper, nested; every index to one past the end; an opaque procedure "
                           "argument whose calls are the events), agrees with its R7RS / minischeme definition: result, calls of the "
                           "procedure argument in order, error when the list is too short")
    from . import listtables
    d_tables = listtables.rule_list_library(ctx, "C11-tables")
    # apply is native: the table of the builtin (evaltables.apply_native_table) — (apply P a1..ak (l1 l2)) for k = 0..3 hands P the
    # leading arguments followed by the elements of the list, in order; a last argument that is not a list is an error
    ctx.rule("C11-apply", "apply spreads its last argument behind the leading ones, in order (table of the native procedure)")
    from . import evaltables as _et11
    _et11.rule_apply_native(ctx, "C11-apply")
    # memq / memv / equal? are written in Scheme on top of the native eq? / eqv?: the table of that native procedure on the atomic kinds
    ctx.rule("C11-eqv-kinds", "the native eqv? (which memq, memv and the leaves of equal? use) tells the atomic kinds apart: a symbol and "
                              "a string with the same characters, a character and the integer of its code, are not the same object")
    _et11.rule_eqv_kinds(ctx, "C11-eqv-kinds")

    def _old_shape_rules():
        # ------------------------------------------------------------------ C11-cxr
        ctx.rule("C11-cxr", "the twelve c[ad]{2,3}r procedures are the compositions their names spell")
        for n in sorted(lib.defs):
            m = re.fullmatch(r"c([ad]{2,3})r", n)
            if not m:
                continue
            fm, body = lib.defs[n]
            want = None
            if fm and len(fm[0]) == 1 and not fm[1] and len(body) == 1:
                x = Sym(fm[0][0])
                want = x
                for ch in reversed(m.group(1)):
                    want = SList([Sym("car" if ch == "a" else "cdr"), want])
            got = body[0] if len(body) == 1 else None

            def normal(t, depth=6):
                """expand (cXYr e) through the file's own single-expression definitions of shorter compositions, down to car / cdr"""
                if isinstance(t, list) and len(t) == 2 and isinstance(t[0], Sym) and depth > 0:
                    inner = normal(t[1], depth)
                    h = t[0].name
                    mm = re.fullmatch(r"c([ad]{2,3})r", h)
                    if mm and h in lib.defs and h != n:
                        out = inner
                        for ch in reversed(mm.group(1)):
                            out = SList([Sym("car" if ch == "a" else "cdr"), out])
                        # only if that shorter composition is itself what its name spells (checked in its own iteration)
                        return out
                    return SList([t[0], inner])
                return t
            ok = want is not None and (repr(want) == repr(got) or repr(want) == repr(normal(got)))
            ctx.inst("C11-cxr", n, {"body": repr(got), "spelled": repr(want)})
            if not ok:
                ctx.report("C11-cxr", n, "%s is defined as %r, its name spells %r" % (n, got, want), GR)
        ctx.floor("C11-cxr", 12)

        # ------------------------------------------------------------------ C11-structural
        ctx.rule("C11-structural", "list procedures are guarded structural recursions applying their procedure once per element in order")
        structural(ctx, mf, lib, info, GR)


    ctx.rule("C11-cxr", "the twelve c[ad]{2,3}r procedures are the compositions their names spell (fallback of C11-tables)")
    ctx.rule("C11-structural", "list procedures are guarded structural recursions (fallback of C11-tables)")
    ctx.guarded("C11-structural", d_tables, _old_shape_rules)

    # ------------------------------------------------------------------ C11-native
    ctx.rule("C11-native", "native car / cdr / cons / pair?: component selection and error edges")
    # decision tables of the native list primitives (machine.py): applied to a pair (A . B), to the empty list and to a non-list
    from . import machine, printtables, absint
    mk = printtables.Mk(fb)

    def find_named(v, name, d=8):
        if isinstance(v, absint.Enum):
            if getattr(v, "name", None) == name:
                return True
            return d > 0 and any(find_named(x, name, d - 1) for x in v.fields)
        return isinstance(v, list) and d > 0 and any(find_named(x, name, d - 1) for x in v)

    def has(v, x, d=8):
        if v is x:
            return True
        if isinstance(v, absint.Enum):
            return d > 0 and any(has(y, x, d - 1) for y in v.fields)
        return isinstance(v, list) and d > 0 and any(has(y, x, d - 1) for y in v)
    d_nat = 0
    A, B = mk.leaf("A"), mk.leaf("B")
    pair, empty, num = mk.lst([A], B), mk.lst([]), mk.number("Integer", 5)
    for name, sel in (("car", A), ("cdr", B)):
        r = regs.get(name)
        f = fb.by_path(r["target"]) if r and r.get("target") else None
        if f is None:
            ctx.undecided("C11-native", name + "/registration", "%s is not registered as a native function" % name, None)
            continue
        if r["fixed"] != 1 or r["variadic"]:
            ctx.report("C11-native", name + "/registration", "%s is not registered as a unary builtin" % name, None)
        rows = []
        for label, arg in (("pair", pair), ("empty-list", empty), ("non-list", num)):
            try:
                rows.append((label, machine.Machine(fb, max_visits=6).run(f, [[arg]])))
            except (absint.Stuck, absint.Loop) as e:
                ctx.undecided("C11-native", "%s/%s" % (name, label), "cannot follow %s (%s)" % (name, e), where_of(f))
        for label, res in rows:
            d_nat += 1
            if label == "pair":
                good = getattr(res, "name", None) == "Ok" and res.fields and res.fields[0] is sel
                msg = "(%s '(A . B)) yields %r, expected %s" % (name, res, "A" if name == "car" else "B")
            else:
                good = getattr(res, "name", None) == "Err" and find_named(res, "TypeMisMatch")
                msg = "(%s %s) yields %r, expected Err(TypeMisMatch)" % (name, "'()" if label == "empty-list" else "5", res)
            ctx.inst("C11-native", "%s/%s" % (name, label), {"ok": bool(good)})
            ctx.oblige(bool(good))
            if not good:
                ctx.report("C11-native", "%s/%s" % (name, "component" if label == "pair" else ("empty" if label == "empty-list" else "non-list")), msg, where_of(f))
    r = regs.get("cons")
    f = fb.by_path(r["target"]) if r and r.get("target") else None
    if f is not None:
        try:
            res = machine.Machine(fb, max_visits=6).run(f, [[A, B]])
            d_nat += 1
            somes = [x for x in ([res] if False else []) ]
            good = getattr(res, "name", None) == "Ok" and find_named(res, "Some")

            def some_fields(v, d=8):
                if isinstance(v, absint.Enum):
                    if getattr(v, "name", None) == "Some" and len(v.fields) == 2:
                        return v.fields
                    for x in v.fields:
                        r_ = some_fields(x, d - 1) if d > 0 else None
                        if r_:
                            return r_
                return None
            sf = some_fields(res)
            good = bool(sf) and sf[0] is A and sf[1] is B and r["fixed"] == 2
            ctx.inst("C11-native", "cons", {"pair_is_(first,second)": bool(good)})
            ctx.oblige(bool(good))
            if not good and r["fixed"] == 2 and (not sf or any(x is absint.UNKNOWN for x in sf)):
                # the components of the pair built are not known (a construct on the way without a model): nothing wrong was seen
                ctx.undecided("C11-native", "cons/order", "cannot follow cons to the pair it builds ((cons A B) yields %r)" % (res,), where_of(f))
            elif not good:
                ctx.report("C11-native", "cons/order", "(cons A B) yields %r, expected the pair (A . B)" % (res,), where_of(f))
        except (absint.Stuck, absint.Loop) as e:
            ctx.undecided("C11-native", "cons", "cannot follow cons (%s)" % e, where_of(f))
    r = regs.get("pair?")
    f = fb.by_path(r["target"]) if r and r.get("target") else None
    if f is not None:
        for label, arg, want in (("pair", pair, True), ("empty-list", empty, False), ("non-list", num, False), ("proper-list", mk.lst([A, B]), True)):
            try:
                res = machine.Machine(fb, max_visits=6).run(f, [[arg]])
            except (absint.Stuck, absint.Loop) as e:
                ctx.undecided("C11-native", "pair?/" + label, "cannot follow pair? (%s)" % e, where_of(f))
                continue
            d_nat += 1
            got = None
            if getattr(res, "name", None) == "Ok" and res.fields and isinstance(res.fields[0], absint.Enum) and getattr(res.fields[0], "name", None) == "Boolean":
                got = res.fields[0].fields[0]
            ctx.inst("C11-native", "pair?/" + label, {"result": got})
            ctx.oblige(got is want)
            if got is not want:
                ctx.report("C11-native", "pair?/table", "(pair? <%s>) yields %r, expected %s" % (label, res, "#t" if want else "#f"), where_of(f))


    def _old_native():
        gp = {n: i for i, n in fb.variants("parser::pair::GenericPair")}
        for name, field in (("car", 0), ("cdr", 1)):
            r = regs.get(name)
            f = fb.by_path(r["target"]) if r else None
            if f is None or r["fixed"] != 1 or r["variadic"]:
                ctx.report("C11-native", name + "/registration", "%s is not registered as a unary builtin" % name, None)
                continue
            el = [t for _, t in f.calls() if callee_matches(t, "Value::expect_list")]
            sw = [x for x in mir.discriminant_switches(f, "GenericPair")]
            if len(el) != 1 or not sw:
                ctx.report("C11-native", name + "/shape", "%s: shape not recognised" % name, where_of(f))
                continue
            sb, place, adt, targets, other = sw[0]
            some_t = targets.get(gp["Some"], other)
            empty_t = targets.get(gp["Empty"], other)
            sreg, ereg = mir.dominated_region(f, some_t), mir.dominated_region(f, empty_t)
            ok_field = None
            for b, i, s, a, v in mir.aggregates(f, sreg):
                if v == "Ok" and s["place"]["local"] == 0:
                    root, path = mir.trace_access(f, s["rv"]["ops"][0])
                    ok_field = [x for x in path if isinstance(x, int)][-1:] or None
            err = any(v == "TypeMisMatch" for _, _, _, _, v in mir.aggregates(f, ereg)) and not any(
                v == "Ok" for _, _, s, _, v in mir.aggregates(f, ereg) if s["place"]["local"] == 0)
            ctx.inst("C11-native", name, {"returns_field": ok_field, "empty_list_is_error": err})
            if ok_field != [field]:
                ctx.report("C11-native", name + "/component", "%s returns component %s of the pair, expected %d" % (name, ok_field, field), where_of(f))
            if not err:
                ctx.report("C11-native", name + "/empty", "(%s '()) is not a TypeMisMatch error" % name, where_of(f))
        r = regs.get("cons")
        f = fb.by_path(r["target"]) if r else None
        if f is not None:
            p = Prov(f)
            order = {b: i for i, b in enumerate(f.rpo())}
            agg = [(b, s) for b, i, s, a, v in mir.aggregates(f, None, "GenericPair") if v == "Some"]
            nexts = sorted([(order[b], t["dest"]["local"]) for b, t in f.calls() if callee_matches(t, "Iterator::next", "Iterator>::next")])
            okc = False
            if len(agg) == 1 and len(nexts) == 2:
                a0 = p.taint_reach(mir.op_local(agg[0][1]["rv"]["ops"][0]))
                a1 = p.taint_reach(mir.op_local(agg[0][1]["rv"]["ops"][1]))
                okc = nexts[0][1] in a0 and nexts[1][1] not in a0 and nexts[1][1] in a1 and nexts[0][1] not in a1
            ctx.inst("C11-native", "cons", {"pair_is_(first,second)": okc})
            if not okc or r["fixed"] != 2:
                ctx.report("C11-native", "cons/order", "cons does not build (first argument . second argument)", where_of(f))
        r = regs.get("pair?")
        f = fb.by_path(r["target"]) if r else None
        if f is not None:
            # true only under Value::Pair and not GenericPair::Empty
            vi = fb.variant_index("values::Value", "Pair")
            trues = [b for b, i, s, a, v in mir.aggregates(f, None, "values::Value") if v == "Boolean" and mir.const_val(s["rv"]["ops"][0]) is True]
            dom = f.dominators()
            guard_pair = any(targets.get(vi) is not None and all(targets[vi] in dom[b] for b in trues) for sb, pl, a, targets, o in mir.discriminant_switches(f, "values::Value"))
            guard_nonempty = False
            for sb, pl, a, targets, o in mir.discriminant_switches(f, "GenericPair"):
                et = targets.get(gp["Empty"])
                if et is not None and not any(b in f.reachable(et) and et in dom[b] for b in trues):
                    guard_nonempty = True
            ctx.inst("C11-native", "pair?", {"requires_Pair": guard_pair, "false_on_empty": guard_nonempty})
            if not (trues and guard_pair and guard_nonempty):
                ctx.report("C11-native", "pair?/table", "pair? is not `a Pair value that is not the empty list`", where_of(f))
    ctx.guarded("C11-native", d_nat >= 11, _old_native)
    for nm in ("eqv?", "eq?", "apply"):
        if nm not in regs:
            ctx.report("C11-native", nm + "/registration", "%s is not registered" % nm, None)
    return EXPLANATION, NOT_DECIDED


# =============================================================================================


def structural(ctx, mf, lib, info, GR):
    from scm.reader import Sym, SList
    from scm import library
    SPEC = {
        # name: (decreasing param index, how, procedure param index or None, applications per step, extra)
        "map": (1, "cdr", 0, 1, {}),
        "for-each": (1, "cdr", 0, 1, {}),
        "fold-left": (2, "cdr", 0, 1, {}),
        "fold-right": (2, "cdr", 0, 1, {}),
        "memq": (1, "cdr", None, 0, {"predicate": "eq?"}),
        "memv": (1, "cdr", None, 0, {"predicate": "eqv?"}),
        # the guard of list-tail is on the count; running off the end of the list is caught by the native cdr (C11-native)
        "list-tail": (1, "dec", None, 0, {"also": (0, "cdr")}),
        "last-pair": (0, "cdr", None, 0, {}),
        "list?": (0, "cdr", None, 0, {}),
        "make-list": (0, "dec", None, 0, {}),
        "equal?": (0, "cdr", None, 0, {"also": (1, "cdr"), "car_recursion": True}),
    }
    n = 0
    for name, (di, how, pi, per_step, extra) in SPEC.items():
        if name not in lib.defs or name not in info:
            ctx.report("C11-structural", name + "/missing", "%s is not defined in base.sld" % name, GR)
            continue
        fm, body = lib.defs[name]
        free, calls, cbody, bound = info[name]
        if fm is None or len(cbody) != 1:
            ctx.undecided("C11-structural", name + "/shape", "%s: body is not a single expression (shape not recognised)" % name, GR)
            continue
        params = fm[0]
        dparam = params[di] if di < len(params) else None
        pparam = params[pi] if pi is not None and pi < len(params) else None
        term = cbody[0]
        recs = [s for s in library.subterms(term) if isinstance(s, list) and s and isinstance(s[0], Sym) and s[0].name == name]
        n += 1
        if not recs:
            helpers = sorted({s[0].name for s in library.subterms(term) if isinstance(s, list) and s and isinstance(s[0], Sym)
                              and s[0].name in lib.defs and s[0].name != name and s[0].name not in SPEC})
            if helpers:
                ctx.undecided("C11-structural", name + "/no-recursion", "%s does not recurse itself but delegates to %s (a helper this rule has "
                              "no recursion scheme for)" % (name, helpers), GR)
            else:
                ctx.report("C11-structural", name + "/no-recursion", "%s does not recurse" % name, GR)
            continue
        # let-bound aliases: ((lambda (v ...) body) e ...) binds v to e
        alias = {}
        for st in library.subterms(term):
            if isinstance(st, list) and st and isinstance(st[0], list) and st[0] and st[0][0] == Sym("lambda") and isinstance(st[0][1], list):
                for fv, op in zip(st[0][1], st[1:]):
                    if isinstance(fv, Sym):
                        alias[fv.name] = op

        def cls(arg, p, depth=3):
            if isinstance(arg, Sym) and arg.name != p and arg.name in alias and depth > 0:
                return cls(alias[arg.name], p, depth - 1)
            if isinstance(arg, Sym) and arg.name == p:
                return "same"
            if isinstance(arg, list) and len(arg) == 2 and isinstance(arg[0], Sym) and arg[1] == Sym(p) and arg[0].name in ("cdr", "car"):
                return arg[0].name
            if isinstance(arg, list) and len(arg) == 3 and arg[0] == Sym("-") and arg[1] == Sym(p) and repr(arg[2]) == "1":
                return "dec"
            return "other"
        ok_dec = True
        for rc in recs:
            args = rc[1:]
            if len(args) != len(params):
                continue
            c = cls(args[di], dparam)
            allowed = {how} | ({"car"} if extra.get("car_recursion") else set())
            if c not in allowed:
                ok_dec = False
                ctx.report("C11-structural", name + "/decrease", "%s recurses with %r for its %s parameter `%s` (expected (%s %s))" % (
                    name, args[di], "list" if how == "cdr" else "count", dparam, "cdr" if how == "cdr" else "-", dparam + (" 1" if how == "dec" else "")), GR)
            if "also" in extra:
                j, h2 = extra["also"]
                c2 = cls(args[j], params[j])
                if c2 not in ({h2} | ({"car"} if extra.get("car_recursion") else set())) or (extra.get("car_recursion") and c2 != c):
                    ctx.report("C11-structural", name + "/decrease2", "%s recurses with %r for `%s`" % (name, args[j], params[j]), GR)
            if pparam is not None and cls(args[pi], pparam) != "same":
                ctx.report("C11-structural", name + "/proc-passed", "%s does not pass its procedure argument unchanged to the recursion" % name, GR)
            # other parameters that are plain data (obj of memq, fill of make-list) must be passed unchanged
            for j, pj in enumerate(params):
                if j in (di, pi) or ("also" in extra and j == extra["also"][0]):
                    continue
                if name in ("memq", "memv", "make-list", "fold-right") and cls(args[j], pj) != "same":
                    ctx.report("C11-structural", name + "/invariant-arg", "%s changes `%s` across the recursion" % (name, pj), GR)
        # guard: every recursive call is under a test that mentions the decreasing parameter
        guarded = True
        for cond, leaf in library.paths(term):
            if leaf is None:
                continue
            if library.count_calls(leaf, name) > 0:
                tests = [t for (_, _, t) in cond]
                names = {dparam} | {a for a, e in alias.items() if Sym(dparam) in list(library.subterms(e))}
                if not any(any(Sym(nm) in list(library.subterms(t)) for nm in names) for t in tests):
                    guarded = False
        if not guarded:
            ctx.report("C11-structural", name + "/guard", "a recursive call of %s is not guarded by a test of `%s`" % (name, dparam), GR)
        # procedure applied exactly per_step times per recursing path, to (car list), before the recursion
        if pparam is not None:
            for cond, leaf in library.paths(term):
                if leaf is None or library.count_calls(leaf, name) == 0:
                    continue
                apps = [s for s in library.subterms(leaf) if isinstance(s, list) and s and s[0] == Sym(pparam)]
                in_tests = sum(library.count_calls(t, pparam) for (_, _, t) in cond)
                if len(apps) + in_tests != per_step:
                    ctx.report("C11-structural", name + "/proc-count", "%s applies its procedure %d time(s) per element (expected %d)" % (
                        name, len(apps) + in_tests, per_step), GR)
                for a in apps:
                    if not any(isinstance(x, list) and len(x) == 2 and x[0] == Sym("car") and x[1] == Sym(dparam) for x in a[1:]):
                        ctx.report("C11-structural", name + "/proc-arg", "%s does not apply its procedure to (car %s)" % (name, dparam), GR)
                if name in ("map", "for-each"):
                    order = [s for s in library.eval_order(leaf) if isinstance(s, list) and s and isinstance(s[0], Sym) and s[0].name in (pparam, name)]
                    if order and order[0][0].name != pparam:
                        ctx.report("C11-structural", name + "/order", "%s recurses before applying the procedure to the current element (list order "
                                   "is not respected under left-to-right operand evaluation)" % name, GR)
        if "predicate" in extra:
            preds = [s[0].name for s in library.subterms(term) if isinstance(s, list) and len(s) == 3 and isinstance(s[0], Sym)
                     and s[0].name in ("eq?", "eqv?", "equal?", "=")]
            ctx.inst("C11-structural", name + "/predicate", preds)
            if preds != [extra["predicate"]]:
                ctx.report("C11-structural", name + "/predicate", "%s compares with %s, expected %s" % (name, preds, extra["predicate"]), GR)
            # found -> returns the sublist itself; not found -> #f
            leaves = [(c, l) for c, l in library.paths(term) if l is not None and library.count_calls(l, name) == 0]
            vals = sorted(repr(l) for c, l in leaves)
            if vals != sorted(["#f", params[di]]):
                ctx.report("C11-structural", name + "/results", "%s returns %s on its non-recursive paths, expected #f and the remaining list" % (name, vals), GR)
        ctx.inst("C11-structural", name, {"recursive_calls": len(recs), "decreases": ok_dec, "guarded": guarded})
    # equal?: pairs are compared component-wise, everything else with eqv? (R7RS 6.1) - no other equivalence at the leaves
    if "equal?" in info:
        t = info["equal?"][2][0]
        LEAF_OK = {"eqv?", "not", "pair?", "null?", "vector?", "string?", "equal?", "car", "cdr"}
        used = sorted({s_[0].name for s_ in library.subterms(t) if isinstance(s_, list) and s_ and isinstance(s_[0], Sym)
                       and s_[0].name not in ("if", "quote", "lambda")})
        foreign = [u for u in used if u not in LEAF_OK]
        n_eqv = library.count_calls(t, "eqv?")
        ctx.inst("C11-structural", "equal?/leaves", {"procedures_used": used, "eqv_calls": n_eqv})
        if foreign or n_eqv < 1:
            ctx.report("C11-structural", "equal?/leaf-predicate", "equal? decides non-pair data with %s (R7RS: eqv? at the leaves; e.g. comparing "
                       "numbers with = makes 2 and 2.0 equal?)" % (foreign or "no eqv?"), GR)
    # list-ref = (car (list-tail x k)); append recursion through apply on (cdr lsts)
    if "list-ref" in info:
        b = info["list-ref"][2]
        p = lib.defs["list-ref"][0][0]
        want = "(car (list-tail %s %s))" % (p[0], p[1]) if len(p) == 2 else None
        ctx.inst("C11-structural", "list-ref", repr(b[0]) if b else None)
        if not b or repr(b[0]) != want:
            # not the composition (car (list-tail x k)): accept a direct recursion that steps both the list and the count and returns
            # the car at count zero; anything else is not recognised (no verdict)
            t0 = b[0] if b else None
            recs = [s_ for s_ in library.subterms(t0) if isinstance(s_, list) and s_ and s_[0] == Sym("list-ref")] if t0 is not None else []
            steps_ok = bool(recs) and all(len(r_) == 3 and repr(r_[1]) == "(cdr %s)" % p[0] and repr(r_[2]) == "(- %s 1)" % p[1] for r_ in recs) and len(p) == 2
            base_ok = any(leaf is not None and repr(leaf) == "(car %s)" % p[0] and any(Sym(p[1]) in list(library.subterms(tt)) for (_, _, tt) in cond)
                          for cond, leaf in library.paths(t0)) if t0 is not None and len(p) == 2 else False
            if steps_ok and base_ok:
                ctx.inst("C11-structural", "list-ref/recursion", {"steps": "(cdr list) (- k 1)", "base": "(car list) under a test of k"})
            elif recs and not steps_ok:
                ctx.report("C11-structural", "list-ref/definition", "list-ref recurses with %s, expected the rest of the list and the count minus "
                           "one" % [repr(r_) for r_ in recs], GR)
            else:
                ctx.undecided("C11-structural", "list-ref/definition", "list-ref is %s: neither (car (list-tail x k)) nor a recognised recursion" % (
                    repr(t0),), GR)
    if "append" in info:
        t = info["append"][2][0]
        fm = lib.defs["append"][0]
        rest = fm[1]
        apps = [s for s in library.subterms(t) if isinstance(s, list) and len(s) >= 3 and s[0] == Sym("apply") and s[1] == Sym("append")]
        ctx.inst("C11-structural", "append", {"variadic": rest is not None, "recursive_applies": len(apps)})
        ok = rest is not None and len(apps) == 2 and all(repr(a[-1]) == "(cdr %s)" % rest for a in apps)
        if not ok:
            ctx.report("C11-structural", "append/recursion", "append does not recurse on the remaining lists (cdr %s)" % rest, GR)
        else:
            # first list non-empty: cons its car, continue with its cdr followed by the remaining lists
            conses = [s for s in library.subterms(t) if isinstance(s, list) and len(s) == 3 and s[0] == Sym("cons")]
            good = any(repr(c[1]) in ("(caar %s)" % rest, "(car (car %s))" % rest) and isinstance(c[2], list) and c[2][0] == Sym("apply")
                       and repr(c[2][2]) in ("(cdar %s)" % rest, "(cdr (car %s))" % rest) for c in conses)
            if not good:
                ctx.report("C11-structural", "append/step", "append does not (cons (caar lsts) (apply append (cdar lsts) (cdr lsts)))", GR)
    for nm in ("list", "null?"):
        if nm in lib.defs:
            fm, body = lib.defs[nm]
            ctx.inst("C11-structural", nm, repr(body[0]) if body else None)
            if nm == "list" and not (fm == ([], fm[1]) and fm[1] and repr(body[0]) == fm[1]):
                ctx.report("C11-structural", "list/definition", "list is not (define (list . x) x)", GR)
            if nm == "null?" and not (fm and len(fm[0]) == 1 and repr(body[0]) in ("(eqv? %s (quote ()))" % fm[0][0], "(eq? %s (quote ()))" % fm[0][0])):
                ctx.report("C11-structural", "null?/definition", "null? is %s, expected a comparison of its argument with '()" % repr(body[0]), GR)
    if n < 10:
        ctx.undecided("C11-structural", "floor", "only %d structural procedures analysed" % n, GR)
