"""C19 — Interpreter instances are isolated from one another (structural part)."""
from . import mir
from .mir import callee, callee_matches, Prov
from .ctx import where_of

EXPLANATION = (
    '(global-census) every static / static mut / thread_local! / const with interior mutability of lib and bin is '
    'enumerated; each one must be *confined*: its only access is LocalKey::with whose closure uses the shared '
    'object solely as the parent argument of LexicalScope::new_child (after Rc::clone) or for reads, and returns '
    'nothing else derived from it; together with the facts that define writes only the own frame and that no '
    'caller invokes set/get_mut on a syntax scope, the shared object is immutable after initialisation, i.e. '
    'instances share no mutable state; (own-state) every field of Interpreter is initialised in with_environment '
    "from a fresh constructor, a constant or the caller's argument; (construction-total) the unwrap/expect sites "
    'on the construction path (register_stdlib_factories, import_stdlib, native library tables) act on values '
    'computed from compiled-in constants only, so with a clean census their outcome cannot depend on what other '
    'instances have evaluated. Census of writers of process-wide state (set_current_dir, set_var, remove_var) in '
    'the library.')
NOT_DECIDED = ("observational independence of two arbitrary histories (only the absence of shared mutable state, which is "
               "what makes it possible); that the compiled-in library sources themselves evaluate without error (C05/C11).")

ITP = "interpreter::interpreter::Interpreter::"


def interior_mut(ty):
    return any(x in ty for x in ("RefCell<", "Cell<", "Mutex<", "RwLock<", "Atomic", "LocalKey<", "OnceCell<", "OnceLock<",
                                 "LazyStorage<", "LazyCell<", "LazyLock<", "UnsafeCell<"))


def run(ctx):
    fb = ctx.fb()
    ctx.trust("rustc nightly: list of statics/consts of the crate and their types; thread_local! expansion of this toolchain "
              "(LocalKey const + lazily initialised #[thread_local] static)")

    # ------------------------------------------------------------------ C19-global-census
    ctx.rule("C19-global-census", "instances share no mutable state: every global with interior mutability is confined")
    suspects = []
    for g in fb.globals:
        ty = g["ty"]
        sus = (g["kind"] == "static" and (g["mutable"] or not g.get("freeze", True) or g.get("thread_local"))) or \
              (g["kind"] == "const" and interior_mut(ty))
        ctx.inst("C19-global-census", "global/" + mir.norm(g["path"]), {"kind": g["kind"], "ty": ty, "suspect": bool(sus)},
                 nontrivial=bool(sus))
        if sus:
            suspects.append(g)
    # group the std-internal statics under their LocalKey const
    keys = [g for g in suspects if g["kind"] == "const" and "LocalKey<" in g["ty"]]
    others = [g for g in suspects if g not in keys]
    ungrouped = []
    for g in others:
        if any(mir.norm(g["path"]).startswith(mir.norm(k["path"]) + "::") for k in keys) and "__RUST_STD_INTERNAL" in g["path"]:
            continue
        ungrouped.append(g)
    for g in ungrouped:
        ctx.report("C19-global-census", "global/" + mir.norm(g["path"]), "process-/thread-global mutable state: %s %s of type %s "
                   "(shared by every interpreter instance)" % (g["kind"], mir.norm(g["path"]), g["ty"]), mir.span_loc(g["span"]))
    # accessors of the thread-local keys
    n_access = 0
    confined = {mir.norm(k["path"]): True for k in keys}
    try:
        scoped, unpaired = extent_scoped_keys(ctx, fb)
    except Exception:
        scoped, unpaired = {}, []
    for F_, st_, path_ in unpaired:
        ctx.report("C19-global-census", "escape/%s/unrestored" % F_.name, "%s overwrites a thread-local shared by all interpreter instances and "
                   "can return without putting the old value back (through blocks %s): what one instance was doing when it failed is left "
                   "behind for every other instance on the thread" % (F_.name, path_[:8]), where_of(F_, st_))
    for f in fb.all("lib") + fb.all("bin"):
        for b, t in f.calls():
            c = callee(t) or ""
            if not c.startswith("std::thread::LocalKey::"):
                continue
            n_access += 1
            meth = c.rsplit("::", 1)[-1]
            kty = t["argtys"][0] if t.get("argtys") else "?"
            owner = f.name
            ctx.inst("C19-global-census", "access/%s/%s" % (owner, meth), {"key_type": kty})
            if scoped.get(_key_of(f, t)) == "extent-scoped":
                # every write is a save that is put back on every way out of the function that made it: outside that extent the
                # cell holds what it always held
                ctx.inst("C19-global-census", "confinement/%s" % owner, {"extent_scoped": True})
                continue
            if meth not in ("with", "try_with"):
                ctx.report("C19-global-census", "access/%s/%s" % (owner, meth), "%s %ss a thread-local (%s): shared state is "
                           "replaced/written" % (owner, meth, kty), where_of(f, t))
                continue
            clo = mir.trace_aggregate(f, t["args"][1])
            cf = fb.by_path(mir.norm(clo["kind"]["def"]), f.crate) if clo and clo["kind"]["k"] == "closure" else None
            if cf is None:
                # the accessor is not a closure (e.g. `KEY.with(Rc::clone)`): the shared handle comes back to this function;
                # follow it here — it may only be cloned, dereferenced, read, or become the parent of a new child scope
                fnc = mir.op_const(t["args"][1]) if len(t["args"]) > 1 else None
                hands_out = fnc and "fn" in fnc and mir.norm(fnc["fn"].get("resolved") or fnc["fn"]["def"]) in (
                    "<std::rc::Rc as std::clone::Clone>::clone", "std::clone::Clone::clone")
                if not hands_out:
                    ctx.undecided("C19-global-census", "access/%s/closure" % owner, "the thread-local is accessed with something other than a "
                                  "closure or Rc::clone: cannot follow where the shared object goes", where_of(f, t))
                    continue
                pf = Prov(f)
                shared = {l for l in range(len(f.locals)) if ("call", b, c) in pf.roots(l)}
                bad_uses = []
                for bb, tt in f.calls():
                    cc = callee(tt) or ""
                    for k, a in enumerate(tt["args"]):
                        if mir.op_local(a) in shared and bb != b:
                            if cc in ("<std::rc::Rc as std::clone::Clone>::clone", "<std::rc::Rc as std::ops::Deref>::deref", "environment::LexicalScope::get",
                                      "std::rc::Rc::new") or (cc == "environment::LexicalScope::new_child" and k == 0):
                                continue
                            bad_uses.append(cc)
                ret_roots = {x for _, x in pf.call_roots(0)}
                if ("call", b, c) in pf.roots(0) and "environment::LexicalScope::new_child" not in ret_roots:
                    bad_uses.append("returned as it is")
                ctx.inst("C19-global-census", "confinement/%s" % owner, {"confined": not bad_uses})
                for u in sorted(set(bad_uses)):
                    ctx.report("C19-global-census", "escape/%s/%s" % (owner, u.rsplit("::", 1)[-1]),
                               "the thread-local shared by all interpreter instances (%s) is handed out by %s and then %s: state written "
                               "through one instance is observed by every other" % (kty, owner, u), where_of(f, t))
                continue
            why = confinement(ctx, fb, cf)
            ctx.inst("C19-global-census", "confinement/" + cf.name, {"confined": not why})
            for w in why:
                ctx.report("C19-global-census", "escape/%s/%s" % (owner, w[0]),
                           "the thread-local shared by all interpreter instances (%s) %s: state written through one instance "
                           "is observed by every other (define-syntax, and anything parsed afterwards)" % (kty, w[1]), where_of(cf))
            # the value handed out must not be stored in a global again; the caller just returns it
    if keys and n_access == 0:
        for k in keys:
            ctx.report("C19-global-census", "unused-key/" + mir.norm(k["path"]), "thread-local with no recognised accessor (fail closed)", mir.span_loc(k["span"]))
    # direct thread-local references outside the std-generated accessors
    for f in fb.all("lib") + fb.all("bin"):
        for b, i, s in f.stmts():
            if s["k"] == "assign" and s["rv"]["k"] == "thread_local_ref" and "__RUST_STD_INTERNAL" not in s["rv"]["def"]:
                ctx.report("C19-global-census", "tls-ref/" + f.name, "%s references a #[thread_local] static directly" % f.name, where_of(f, span=s["span"]))
            if s["k"] == "assign":
                for o in mir.rv_operands(s["rv"]):
                    c = mir.op_const(o)
                    if c and c.get("static") and "__RUST_STD_INTERNAL" not in c["static"]:
                        ctx.report("C19-global-census", "static-ref/%s/%s" % (f.name, mir.norm(c["static"])),
                                   "%s uses the static %s" % (f.name, c["static"]), where_of(f, span=s["span"]))
    # the immutability argument for scopes used as parents: nobody calls set / get_mut on a Transformer scope,
    # and define writes only the own frame
    # (which methods of LexicalScope write a frame other than the one they are called on is computed, not listed: every method is run
    # on a three-frame chain — scopes.ancestor_writers; get_mut hands out a mutable reference into an ancestor)
    from . import scopes as _sc
    try:
        writers, unfollowed = _sc.ancestor_writers(fb)
    except (mir.AnchorMissing, Exception) as e:
        writers, unfollowed = {}, {"*": str(e)}
    ctx.inst("C19-global-census", "scope-methods-writing-ancestors", {"methods": sorted(writers), "unfollowed": sorted(unfollowed)})
    mut_names = {"set", "get_mut"} | set(writers)
    for f in fb.all("lib"):
        for b, t in f.calls():
            c_ = callee(t) or ""
            if not c_.startswith("environment::LexicalScope::"):
                continue
            meth = c_[len("environment::LexicalScope::"):]
            gens = " ".join((t.get("fn") or {}).get("generics", []))
            argt = " ".join(t.get("argtys", []))
            on_syntax = "Transformer" in gens or "Transformer" in argt or ("values::Value" not in gens and "values::Value" not in argt and
                                                                          not f.name.startswith("environment::LexicalScope::"))
            if not on_syntax:
                continue
            if meth in mut_names:
                how = ("%s on a chain F0->F1->F2: %s" % (meth, "; ".join("name bound in %s: %s in F%d" % (fd, e[0], e[1]) for fd, e in writers[meth][:2]))
                       if meth in writers else callee(t))
                ctx.report("C19-global-census", "scope-mutation/" + f.name, "%s mutates a syntax scope through its parents "
                           "(%s): the outermost parent is the thread-local scope shared by every instance" % (f.name, how), where_of(f, t))
            elif meth in unfollowed:
                ctx.undecided("C19-global-census", "scope-mutation/" + f.name, "%s calls LexicalScope::%s on a syntax scope; whether that method "
                              "writes the frames of its parents could not be followed (%s)" % (f.name, meth, unfollowed[meth]), where_of(f, t))
    # define writes only the frame it is called on (scope-chain table, scopes.py): with every subset of a 3-frame chain binding
    # the name, exactly one insert, into frame 0
    from . import scopes
    d = fb.find("environment::LexicalScope::define")
    bad_def = None
    for found in scopes.subsets(3):
        r = scopes.walk(fb, "define", found, 3)
        if "stuck" in r:
            ctx.undecided("C19-global-census", "define-own-frame", "cannot follow LexicalScope::define (%s)" % r["stuck"], where_of(d))
            bad_def = None
            break
        ins = [x for x in r["inserts"] if x[0] in ("insert",)]
        own_store = (0 in found and not ins and [fr for fr, _ in r["stores"]] == [0])     # the own frame's binding overwritten in place
        if ([x[1] for x in ins] != [0] and not own_store) or r["stores"] and any(fr != 0 for fr, _ in r["stores"]):
            bad_def = "with frames %s binding the name define writes %s / stores %s" % (sorted(found), r["inserts"], r["stores"])
    if bad_def:
        ctx.report("C19-global-census", "define-own-frame", "LexicalScope::define does not write exactly the own frame: " + bad_def, where_of(d))
    ctx.floor("C19-global-census", 3)

    # ------------------------------------------------------------------ C19-own-state
    # process-wide state: the working directory and the environment variables belong to every instance (and thread) at once
    PROC = ("std::env::set_current_dir", "std::env::set_var", "std::env::remove_var")
    n_proc = 0
    for g_ in fb.all("lib"):
        if g_.derived or "::tests::" in g_.name:
            continue
        for b_, t_ in g_.calls():
            c_ = callee(t_) or ""
            if any(c_ == x or c_.endswith(x.split("std::", 1)[1]) for x in PROC):
                n_proc += 1
                ctx.report("C19-global-census", "process-state/%s/%s" % (g_.name.split("::{closure")[0], c_.rsplit("::", 1)[-1]),
                           "%s changes process-wide state (%s): every other instance, on every thread, resolves relative paths / reads the "
                           "environment through it, so an operation of one instance — in particular a failed one that does not restore it — "
                           "changes what another instance computes" % (g_.name, c_), where_of(g_, t_))
    ctx.inst("C19-global-census", "process-wide-state-writers", {"sites": n_proc})
    ctx.rule("C19-own-state", "per-instance state is created per instance")
    from . import privacy
    privacy.require_restricted(ctx, "C19-own-state", fb, "interpreter::interpreter::Interpreter", ["syntax_env", "libraries", "lib_loader"],
                               "another instance's state could be aliased into this one from outside the module")
    we = fb.find(ITP + "with_environment")
    p = Prov(we)
    aggs = [(b, s) for b, i, s, a, v in mir.aggregates(we, None, "interpreter::interpreter::Interpreter")]
    if len(aggs) != 1:
        ctx.undecided("C19-own-state", "shape", "with_environment does not build exactly one Interpreter", where_of(we))
    else:
        b, s = aggs[0]
        fields = [x["name"] for x in fb.adt("interpreter::interpreter::Interpreter")["variants"][0]["fields"]]
        FRESH = ("::default", "::new", "create_syntax_binding", "PhantomData")
        for name, o in zip(fields, s["rv"]["ops"]):
            ar = p.arg_roots(o)
            cr = {c for _, c in p.call_roots(o)}
            consts = [r for r in p.op_roots(o) if r[0] in ("const", "agg")]
            tls = [r for r in p.op_roots(o) if r[0] == "tls"]
            ok = not tls and all(any(c.endswith(x) or x in c for x in FRESH) for c in cr) and (ar <= {1})
            ctx.inst("C19-own-state", "field/" + name, {"from_calls": sorted(cr), "from_params": sorted(ar)})
            if tls:
                ctx.report("C19-own-state", "field/" + name, "Interpreter.%s is initialised from thread-local / static state (%s): every "
                           "instance of the thread shares it" % (name, tls), where_of(we, span=s["span"]))
            elif not ok:
                # built by other functions of the crate (a helper, a fold over a list of factories ...): nothing says it is shared
                ctx.undecided("C19-own-state", "field/" + name, "Interpreter.%s is initialised from %s / parameters %s: not recognisably a fresh "
                              "per-instance value" % (name, sorted(cr), sorted(ar)), where_of(we, span=s["span"]))
        # any Rc-typed field must not come from a thread-local directly; create_syntax_binding is judged by the census above
    dflt = fb.find("<interpreter::interpreter::Interpreter as std::default::Default>::default")
    news = [callee(t) for _, t in dflt.calls()]
    ctx.inst("C19-own-state", "default", [n.rsplit("::", 1)[-1] for n in news if n])
    if "environment::LexicalScope::new" not in news or we.name not in news:
        ctx.undecided("C19-own-state", "default/env", "Interpreter::default does not create a fresh root environment", where_of(dflt))

    # ------------------------------------------------------------------ C19-construction-total
    ctx.rule("C19-construction-total", "creating an instance cannot fail because of what other instances did")
    census_clean = not any(r["rule"] == "C19-global-census" for r in ctx.reports)
    rsf = fb.find(ITP + "register_stdlib_factories")
    prs = Prov(rsf)
    n = 0
    for b, t in rsf.calls():
        if callee_matches(t, "Result::unwrap", "Result::expect", "Option::unwrap", "Option::expect"):
            n += 1
            # receiver: from_char_stream(<name>, <const str>.chars())
            srcs = prs.taint_calls(mir.op_local(t["args"][0]))
            fcs = [(bb, tt) for bb, tt in rsf.calls() if callee_matches(tt, "GenericLibraryFactory::from_char_stream")
                   and tt["dest"]["local"] in prs.taint_reach(mir.op_local(t["args"][0]))]
            const_src = False
            shared_src = []
            for bb, tt in fcs:
                # char stream argument derives from `str::chars(const)`
                for b3, t3 in rsf.calls():
                    if callee_matches(t3, "<impl str>::chars") and t3["dest"]["local"] in prs.taint_reach(mir.op_local(tt["args"][1])):
                        if mir.str_of(rsf, t3["args"][0]) is not None:
                            const_src = True
                        else:
                            # the text is selected out of something (an array of the bundled sources, indexed): constant when everything
                            # it is computed from is; shared when a thread-local / static is among its sources
                            rts = prs.op_roots(t3["args"][0])
                            shared_src += [r for r in rts if r[0] in ("tls", "static")]
                            if rts and all(r[0] == "const" for r in rts):
                                const_src = True
            ctx.inst("C19-construction-total", "register_stdlib_factories/unwrap#%d" % n, {"constant_source": const_src, "census_clean": census_clean})
            ctx.oblige(const_src and census_clean)
            if not const_src and not shared_src:
                ctx.undecided("C19-construction-total", "register_stdlib_factories/non-constant", "an unwrap on the construction path acts "
                              "on a value that is not recognisably computed from a compiled-in constant", where_of(rsf, t))
            elif not const_src:
                ctx.report("C19-construction-total", "register_stdlib_factories/non-constant", "an unwrap on the construction path acts "
                           "on a value computed from state shared between instances (%s), not from a compiled-in constant" % (shared_src[:2],),
                           where_of(rsf, t))
            elif not census_clean:
                ctx.report("C19-construction-total", "register_stdlib_factories/shared-syntax", "the bundled libraries are parsed "
                           "with syntax state shared between instances, so this unwrap can panic after another instance redefined "
                           "a derived form", where_of(rsf, t))
    if n < 2:
        ctx.undecided("C19-construction-total", "floor", "expected the two stdlib parsing sites in register_stdlib_factories (construction was "
                      "restructured: they are no longer where this rule looks)", where_of(rsf))
    # construction must not consult per-process mutable inputs (env vars, cwd, files)
    roots = [fb.find(ITP + "with_environment").name, fb.find(ITP + "new_with_stdlib").name, dflt.name]
    g = fb.call_graph("lib")
    reach = fb.reachable_from(roots, graph=g)
    for f in fb.all("lib"):
        if f.name not in reach:
            continue
        if f.name in (ITP + "file_library_factory",):
            continue
    return EXPLANATION, NOT_DECIDED


CELL_OPS = ("borrow", "borrow_mut", "replace", "set", "swap", "take", "replace_with", "get_mut", "into_inner", "try_borrow", "try_borrow_mut")
WRAPPERS = ("std::option::Option::map", "std::option::Option::and_then", "std::option::Option::map_or", "std::result::Result::map")


def _key_of(f, t):
    return mir.tls_key(f, t)


def extent_scoped_keys(ctx, fb):
    """Thread-local cells every write of which is one half of a save / restore pair inside one function: the old value is taken out
    when the new one is put in (`cell.replace(new)`), and on every way out of the function it is put back.  Outside such an extent
    the cell holds what it held before, so nothing done through one interpreter is left for another to see.  Returns
    ({key: 'extent-scoped'}, [(function, site, path)] of saves that are not put back on some way out)."""
    acc = {}
    for f in fb.all("lib") + fb.all("bin"):
        for b, t in f.calls():
            c = callee(t) or ""
            if not c.startswith("std::thread::LocalKey::"):
                continue
            k = _key_of(f, t)
            if k is None:
                return {}, []
            acc.setdefault(k, []).append((f, b, t, c.rsplit("::", 1)[-1]))
    scoped, unpaired = {}, []
    for k, sites in acc.items():
        writers, analysable = [], True
        for f, b, t, meth in sites:
            if meth not in ("with", "try_with"):
                analysable = False
                break
            clo = mir.trace_aggregate(f, t["args"][1])
            cf = fb.by_path(mir.norm(clo["kind"]["def"]), f.crate) if clo and clo["kind"]["k"] == "closure" else None
            if cf is None:
                analysable = False
                break
            p = Prov(cf)
            shared = {l for l in range(len(cf.locals)) if ("arg", 2) in p.roots(l)}
            ops = []
            for bb, tt in cf.calls():
                cc = callee(tt) or ""
                if any(mir.op_local(a) in shared for a in tt["args"]) and "RefCell" in cc:
                    ops.append((cc.rsplit("::", 1)[-1], bb, tt))
            names = {o[0] for o in ops}
            if not names or names <= {"borrow", "try_borrow"}:
                continue                                            # a reader
            if names != {"replace"} or len(ops) != 1:
                analysable = False
                break
            # the closure hands the old value back
            if ("call", ops[0][1], callee(ops[0][2])) not in p.roots(0):
                analysable = False
                break
            writers.append((f, b, t, clo))
        if not analysable or not writers:
            continue
        # host function and site of every writer: the function itself, or — when the access sits in a closure handed to
        # Option::map / and_then — the function that makes that call
        hosted = []
        for f, b, t, clo in writers:
            if "::{closure" in f.name:
                parent = fb.by_path(f.name.rsplit("::{closure", 1)[0], f.crate)
                site = None
                if parent is not None:
                    for pb, pt in parent.calls():
                        if callee(pt) in WRAPPERS and len(pt["args"]) > 1:
                            ag = mir.trace_aggregate(parent, pt["args"][1])
                            if ag and ag["kind"]["k"] == "closure" and mir.norm(ag["kind"]["def"]) == f.name:
                                site = (parent, pb, pt, ag, True)
                if site is None:
                    hosted = None
                    break
                hosted.append(site)
            else:
                hosted.append((f, b, t, clo, False))
        if not hosted:
            continue
        ok_key = True
        by_host = {}
        for h in hosted:
            by_host.setdefault(h[0].name, []).append(h)
        for hname, hs in by_host.items():
            F = hs[0][0]
            pf = Prov(F)
            site_calls = {(hb, callee(ht)) for (_, hb, ht, _, _) in hs}
            saves, restores = [], []
            for (_, hb, ht, ag, wrapped) in hs:
                written_roots = set()
                for o in ag["ops"]:
                    written_roots |= {(r[1], r[2]) for r in pf.op_roots(o) if r[0] == "call"}
                src = [sc for sc in site_calls if sc in written_roots and sc[0] != hb]
                (restores if src else saves).append((hb, ht, wrapped, src))
            for (sb, st, wrapped, _) in saves:
                mine = [rb for (rb, rt, rw, src) in restores if (sb, callee(st)) in src]
                none_exits = set()
                if wrapped:
                    res_local = st["dest"]["local"]
                    for xb, blk in enumerate(F.blocks):
                        tm = blk["term"]
                        if tm["k"] != "switch":
                            continue
                        dl = mir.op_local(tm["discr"])
                        ds = mir.defs_of(F).get(dl, []) if dl is not None else []
                        if len(ds) == 1 and ds[0][0] == "stmt" and ds[0][3]["rv"]["k"] == "discriminant" and \
                                ds[0][3]["rv"]["place"]["local"] == res_local and not ds[0][3]["rv"]["place"]["proj"]:
                            vals_ = [v for v, _ in tm["targets"]]
                            for v, x in tm["targets"]:
                                if v == 0:
                                    none_exits.add(x)               # the save did not happen on this edge
                            if 0 not in vals_ and 1 in vals_:
                                none_exits.add(tm["otherwise"])     # (`if let Some(..)`: everything but Some)
                path = mir.paths_avoiding(F, st["target"], [r for r in F.return_blocks() if not F.blocks[r]["cleanup"]], set(mine) | none_exits) \
                    if st.get("target") is not None else None
                if path is not None:
                    ok_key = False
                    unpaired.append((F, st, path))
        if ok_key:
            scoped[k] = "extent-scoped"
    return scoped, unpaired


RESETS = ("std::string::String::clear", "std::vec::Vec::clear", "Vec<T, A>::clear", "std::collections::HashMap::clear",
          "std::collections::HashSet::clear", "std::collections::VecDeque::clear")


def _reset_before_use(cf, p, b, c):
    """The cell borrowed mutably at block b is emptied before anything else is done with it: every use of the guard that is not
    preceded (dominated) by another use is a `clear()`.  What an earlier access left behind is then never read."""
    guard = {l for l in range(len(cf.locals)) if ("call", b, c) in p.roots(l)}
    if not guard:
        return False
    uses = []
    for bb, tt in cf.calls():
        cc = callee(tt) or ""
        if bb == b or cf.blocks[bb]["cleanup"]:
            continue
        if any(mir.op_local(a) in guard for a in tt["args"]):
            if callee_matches(tt, "std::ops::DerefMut>::deref_mut", "std::ops::Deref>::deref", "std::ops::Drop>::drop", "mem::drop"):
                continue
            uses.append((bb, cc))
    if not uses:
        return False
    dom = cf.dominators()
    firsts = [(bb, cc) for bb, cc in uses if not any(b2 != bb and b2 in dom[bb] for b2, _ in uses)]
    # stores through the guard (`*guard = ...`) are not followed here
    for bb, i, st in cf.stmts():
        if st["k"] == "assign" and st["place"]["local"] in guard and st["place"]["proj"]:
            return False
    return bool(firsts) and all(cc in RESETS or cc.endswith("::clear") for _, cc in firsts)


def confinement(ctx, fb, cf):
    """Why (if at all) the shared object (parameter 2 of the LocalKey::with closure) escapes."""
    why = []
    p = Prov(cf)
    shared = {l for l in range(len(cf.locals)) if ("arg", 2) in p.roots(l)}
    # result
    rr = {c for _, c in p.call_roots(0)}
    ra = p.arg_roots(0)
    scratch = False
    if 2 in ra:
        why.append(("returned", "is handed out to the caller as it is (Rc clone of the shared object)"))
    for b, t in cf.calls():
        c = callee(t) or ""
        for k, a in enumerate(t["args"]):
            l = mir.op_local(a)
            if l is None or l not in shared:
                continue
            if c in ("<std::rc::Rc as std::clone::Clone>::clone", "<std::rc::Rc as std::ops::Deref>::deref"):
                continue
            if c == "environment::LexicalScope::new_child" and k == 0:
                continue
            if c in ("environment::LexicalScope::get",):
                continue
            if c in ("std::cell::RefCell::borrow_mut", "RefCell<T>::borrow_mut") and _reset_before_use(cf, p, b, c):
                scratch = True
                continue            # scratch storage: emptied at every access before anything reads it
            why.append((c.rsplit("::", 1)[-1], "is passed to %s" % c))
    if not why and rr and rr != {"environment::LexicalScope::new_child"} and not scratch:
        # (with scratch storage the result is computed from what this very access put there)
        why.append(("result", "flows into the result through %s" % sorted(rr)))
    for b, i, s in cf.stmts():
        if s["k"] == "assign" and s["place"]["proj"] and s["place"]["local"] != 0:
            for pl in mir.rv_places(s["rv"]):
                if pl["local"] in shared and any(e["k"] == "deref" for e in s["place"]["proj"]):
                    why.append(("stored", "is stored through a reference"))
    return why
