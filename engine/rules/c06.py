"""C06 — The reader maps text to the data its tokens denote (structural part)."""
from . import mir, absint
from .mir import callee, callee_matches, Prov
from .ctx import where_of

EXPLANATION = (
    "Whole-lexer abstract runs (engine/rules/lexrun.py: the lexer's MIR evaluated on a character sequence, no "
    'binary is run) give finite tables the property is about: (delimited) token class x follower character — for '
    '9 token classes, 10 non-delimiter followers and 9 delimiters, a token is never split from a following non- '
    'delimiter and is ended by every delimiter; (consume-inspected) dataflow: advance(k) consumes at most the '
    'peeked character plus characters that were examined; (charclass) whitespace set of try_next = whitespace set '
    'of the atmosphere loop = {space, tab, LF, CR}; delimiter set of test_delimiter = whitespace + ( ) " ; |; '
    'comment terminators; digit / sign dispatch; (escapes) the string escape table against R7RS 6.7; (position) '
    'Lexer::advance bookkeeping LF => line+1, column=1, other => column+1, and every token is located from it; '
    "(quote) the symbol built for 'x is the keyword routed to transform_quote. (token-classes) tokens generated "
    'from the productions of R7RS 7.1.1 — ordinary and peculiar identifiers with every kind of <subsequent>, '
    'signed integers, ratios, decimals with exponent — are read as the class and value the grammar assigns (two '
    'forms the lexer rejects, `.5` and `+.a`, are recorded as outside its supported grammar).')
NOT_DECIDED = ("the datum denoted by each token (numeric conversion, string contents) and list/vector construction for "
               "all nestings; tokens outside the supported grammar.")

LEX = "parser::lexer::Lexer::"
R7RS_WS = {32, 9, 10, 13}
R7RS_DELIM = R7RS_WS | {ord(c) for c in '()";|'}
R7RS_ESC = {"a": 7, "b": 8, "t": 9, "n": 10, "r": 13, '"': 34, "\\": 92, "|": 124}
ALPHABET = list(range(0, 128)) + [0x85, 0xA0, 0xE9, 0x3BB, 0x2028, 0x4E2D, 0x1F600]


def scripted(f, chars, peeks=None, env=None, max_adv=None, stop_at_lexer_calls=True):
    """Abstractly evaluate scanner `f` on a scripted character stream.
    chars: values returned by successive advance(1)/next() calls (None = end of input);
    peeks: value returned by every peek() (a code point, None for end of input, or a list consumed in order).
    Returns (outcome, events) where events are ('call', name) / ('push', code) and outcome one of
    'tok:<TokenData variant>[:<Primitive variant>]', 'none', 'err:<variant>', '->callee', 'more', 'stuck', 'loop'."""
    events = []
    st = {"adv": 0, "pk": 0}
    errs = []

    def oracle(ff, bb, tt, e):
        n = callee(tt) or ""
        if n.endswith("Lexer::advance") or n.endswith("Peekable as std::iter::Iterator>::next"):
            i = st["adv"]
            st["adv"] += 1
            if i >= len(chars):
                return ("__stop__",)
            c = chars[i]
            v = absint.Enum(0, []) if c is None else absint.Enum(1, [c])
            # advance() stores into self.current as a side effect
            if n.endswith("Lexer::advance") and isinstance(e.get(1), list):
                e[1][0] = v
            return v
        if n.endswith("Option::take"):
            return absint.operand(e, tt["args"][0])
        if n.endswith("Peekable::peek"):
            if isinstance(peeks, list):
                i = st["pk"]
                st["pk"] += 1
                pv = peeks[i] if i < len(peeks) else None
            else:
                pv = peeks
            return absint.Enum(0, []) if pv is None else absint.Enum(1, [pv])
        if n.endswith("String::push"):
            events.append(("push", absint.operand(e, tt["args"][1])))
            return None
        if n.endswith("Lexer::test_delimiter"):
            events.append(("call", "test_delimiter"))
            return absint.Enum(0, [[]])  # assume Ok: the table of test_delimiter is read separately
        if n.endswith("::branch"):
            v = absint.operand(e, tt["args"][0])
            if isinstance(v, absint.Enum):
                return absint.Enum(0 if v.variant == 0 else 1, v.fields)
            return None
        g = oracle.fb.by_path(n) if n.startswith("parser::lexer::") else None
        takes_lexer = g is not None and g.arg_count >= 1 and "Lexer<" in (g.local_ty(1) or "")
        if g is not None and not takes_lexer:
            # a pure helper of the lexer module (character predicate, escape table, position arithmetic): follow it
            args = [absint.operand(e, a) for a in tt["args"]]
            try:
                k, b2, e2 = absint.run_fragment(g, 0, {i + 1: v for i, v in enumerate(args)}, oracle=oracle, max_visits=2)
                return e2.get(0)
            except (absint.Stuck, absint.Loop):
                return None
        if n.startswith("parser::lexer::Lexer::") and stop_at_lexer_calls:
            events.append(("call", n.rsplit("::", 1)[-1]))
            return ("__stop__",)
        # std combinators (Option / Result / comparisons): the shared models of machine.py
        from . import machine
        if not hasattr(scripted, "_mc") or scripted._mc.fb is not oracle.fb:
            scripted._mc = machine.Machine(oracle.fb, inline=lambda name: False)
        try:
            r = scripted._mc._model(n, [absint.deref(absint.operand(e, a)) for a in tt["args"]], tt, ff)
        except (absint.Stuck, absint.Loop):
            r = machine.NOT
        if r is not machine.NOT:
            return r
        return None
    oracle.fb = scripted.fb
    scripted.state = st
    e = dict(env or {})
    try:
        kind, b, e2 = absint.run_fragment(f, 0, e, oracle=oracle, stuck_ok=True, max_visits=len(chars) + 1)
    except absint.Loop:
        return "loop", events
    if kind == "call":
        t = f.blocks[b]["term"]
        n = callee(t) or ""
        if n.endswith("Lexer::advance") or n.endswith("Iterator>::next"):
            return "more", events
        return "->" + n.rsplit("::", 1)[-1], events
    if kind == "stuck":
        return "stuck", events
    r = e2.get(0)
    if kind == "return" and isinstance(r, absint.Enum):
        nm = getattr(r, "name", "?")
        if nm == "Err":
            return "err", events
        inner = r.fields[0] if r.fields else None
        if isinstance(inner, absint.Enum):
            if getattr(inner, "name", None) == "None" or (inner.variant == 0 and not inner.fields):
                return "none", events
            tok = inner.fields[0] if inner.fields else None
            if isinstance(tok, absint.Enum):
                s = "tok:" + getattr(tok, "name", "?")
                if tok.fields and isinstance(tok.fields[0], absint.Enum) and hasattr(tok.fields[0], "name"):
                    s += ":" + tok.fields[0].name
                    pv = tok.fields[0].fields[0] if tok.fields[0].fields else None
                    if isinstance(pv, (bool, int)):
                        s += ":" + str(pv)
                return s, events
        if nm == "Ok":
            return "ok", events
    return kind, events


def run(ctx):
    fb = ctx.fb()
    scripted.fb = fb
    ctx.trust("rustc nightly MIR; decision tables by abstract evaluation of loop-free scanner prefixes on scripted "
              "character streams (absint.py); R7RS 2.1/2.2/6.7 character tables are the oracle")
    tn = fb.find(LEX + "try_next")
    lexenv = lambda cur=None: {1: [absint.Enum(0, []) if cur is None else absint.Enum(1, [cur]), absint.UNKNOWN, [1, 1]]}

    # ------------------------------------------------------------------ C06-token-classes
    ctx.rule("C06-token-classes", "single tokens generated from the productions of R7RS 7.1.1 (ordinary and peculiar identifiers with every "
                                  "kind of <subsequent>, signed integers, ratios, decimals with exponent) are read as the class and value the "
                                  "grammar assigns (whole-lexer abstract run on `token + delimiter`)")
    from . import tokenclass
    tokenclass.rule(ctx, "C06-token-classes")

    # ------------------------------------------------------------------ C06-charclass
    ctx.rule("C06-charclass", "layout characters and delimiters form one consistent set across the lexer")
    disp = {}
    for c in ALPHABET:
        row = {}
        for pk in (None, ord("1"), ord("."), ord(" "), ord("a"), ord("@"), ord(")")):
            row[pk] = scripted(tn, [c], pk, lexenv())[0]
        disp[c] = row
    ws_try = {c for c in ALPHABET if all(v == "->atmosphere" for v in disp[c].values())}
    comment_start = {c for c in ALPHABET if all(v == "->comment" for v in disp[c].values())}
    ctx.inst("C06-charclass", "try_next/whitespace", sorted(ws_try))
    ctx.inst("C06-charclass", "try_next/comment-start", sorted(comment_start))
    if ws_try != R7RS_WS:
        ctx.report("C06-charclass", "try_next/whitespace", "try_next treats %s as whitespace, R7RS: %s" % (
            sorted(ws_try), sorted(R7RS_WS)), where_of(tn))
    if comment_start != {ord(";")}:
        ctx.report("C06-charclass", "try_next/comment-start", "comments start at %s" % sorted(comment_start), where_of(tn))
    atm = fb.find(LEX + "atmosphere")
    ws_atm = {c for c in ALPHABET if scripted(atm, [], c, lexenv(32))[0] == "more"}
    ctx.inst("C06-charclass", "atmosphere/skips", sorted(ws_atm))
    if ws_atm != ws_try:
        ctx.report("C06-charclass", "atmosphere/whitespace", "the atmosphere loop skips %s but try_next enters it on %s" % (
            sorted(ws_atm), sorted(ws_try)), where_of(atm))
    com = fb.find(LEX + "comment")
    com_end = {c for c in ALPHABET if scripted(com, [], c, lexenv(59))[0] != "more"}
    ctx.inst("C06-charclass", "comment/terminators", sorted(com_end))
    if not com_end or not com_end <= R7RS_WS or 10 not in com_end:
        # (the scripted run of `comment` answers peeks and advances; a scanner that takes characters another way is asked through the
        # whole lexer instead: a comment ends at c when the token after `; x` c is read)
        from . import lexrun as _lx2
        com_end2, stuck_ = set(), False
        for c_ in sorted(ALPHABET):
            toks_ = _lx2.lex(fb, "; x" + chr(c_) + "m1 ")
            if toks_ and toks_[-1][0] in ("stuck", "panic"):
                stuck_ = True
                break
            if any(t_[0] == "Identifier" and t_[1] == "m1" for t_ in toks_):
                com_end2.add(c_)
        if stuck_:
            ctx.undecided("C06-charclass", "comment/terminators", "the comment scanner cannot be followed", where_of(com))
            com_end = {10}
        else:
            com_end = com_end2
            ctx.inst("C06-charclass", "comment/terminators/whole-lexer", sorted(com_end))
    if not com_end or not com_end <= R7RS_WS or 10 not in com_end:
        ctx.report("C06-charclass", "comment/terminators", "comments end at %s (must include LF and be line endings)" % sorted(com_end), where_of(com))
    td = fb.find(LEX + "test_delimiter")
    delim = set()
    from . import machine as _m
    td_stuck = 0
    for c in ALPHABET:
        try:
            r0 = _m.Machine(fb).run(td, [absint.UNKNOWN, c])
            if getattr(r0, "name", None) == "Ok":
                delim.add(c)
        except (absint.Stuck, absint.Loop):
            td_stuck += 1
    ctx.inst("C06-charclass", "test_delimiter/accepts", sorted(delim))
    if td_stuck:
        ctx.undecided("C06-charclass", "test_delimiter/set", "the delimiter table could not be read for %d characters" % td_stuck, where_of(td))
    elif delim != R7RS_DELIM:
        ctx.report("C06-charclass", "test_delimiter/set", "test_delimiter accepts %s, R7RS delimiters are %s (difference %s)" % (
            "".join(map(chr, sorted(delim))).__repr__(), "".join(map(chr, sorted(R7RS_DELIM))).__repr__(),
            sorted(delim ^ R7RS_DELIM)), where_of(td))
    # (the whole lexer run on `.` followed by each character: how the dot is told from a peculiar identifier may be written with
    # helpers and closures)
    from . import lexrun as _lr6
    dot_period, dot_stuck = set(), 0
    for pk in ALPHABET:
        toks_ = _lr6.lex(fb, "." + chr(pk) + " ", max_tokens=3)
        if toks_ and toks_[0][0] == "Period":
            dot_period.add(pk)
        elif toks_ and toks_[0][0] in ("stuck", "panic"):
            dot_stuck += 1
    te_ = _lr6.lex(fb, ".", max_tokens=2)
    dot_eof = "tok:Period" if te_ and te_[0][0] == "Period" else (te_[0][0] if te_ else "nothing")
    ctx.inst("C06-charclass", "dot/period-before", sorted(dot_period))
    if dot_stuck or dot_eof in ("stuck", "panic"):
        ctx.undecided("C06-charclass", "dot/delimiters", "the lexer could not be followed on `.` before %d characters" % dot_stuck, where_of(tn))
    elif not td_stuck and (dot_period != delim or dot_eof != "tok:Period"):
        ctx.report("C06-charclass", "dot/delimiters", "`.` is a Period before %s but the delimiter set is %s (difference %s)" % (
            sorted(dot_period), sorted(delim), sorted(dot_period ^ delim)), where_of(tn))
    # digits and signs
    for c in range(ord("0"), ord("9") + 1):
        if any(v != "->number" for v in disp[c].values()):
            ctx.report("C06-charclass", "digit/%s" % chr(c), "digit %s does not dispatch to the number scanner" % chr(c), where_of(tn))
    for sgn in "+-":
        row = {pk: scripted(tn, [ord(sgn)], pk, lexenv())[0] for pk in ALPHABET + [None]}
        num = {pk for pk, v in row.items() if v == "->number"}
        want = set(range(ord("0"), ord("9") + 1)) | {ord(".")}
        ctx.inst("C06-charclass", "sign/%s" % sgn, sorted(x for x in num if x is not None))
        if num != want or any(v not in ("->number", "->percular_identifier") for v in row.values()):
            ctx.report("C06-charclass", "sign/%s" % sgn, "%s starts a number before %s (expected digits and `.`)" % (sgn, sorted(num)), where_of(tn))
    simple = {"(": "tok:LeftParen", ")": "tok:RightParen", "'": "tok:Quote", '"': "->string", "|": "->quoted_identifier"}
    for ch, want in simple.items():
        got = set(disp[ord(ch)].values())
        ctx.inst("C06-charclass", "dispatch/%s" % ch, sorted(got))
        if got != {want}:
            ctx.report("C06-charclass", "dispatch/%s" % ch, "%r dispatches to %s, expected %s" % (ch, sorted(got), want), where_of(tn))
    hash_rows = {}
    for c2 in ALPHABET:
        hash_rows[c2] = scripted(tn, [ord("#"), c2, ord("8"), ord("(")], None, lexenv())[0]
    want_hash = {ord("("): "tok:VecConsIntro", ord("t"): "tok:Primitive:Boolean:True", ord("f"): "tok:Primitive:Boolean:False"}
    for c2, w in want_hash.items():
        ctx.inst("C06-charclass", "hash/%s" % chr(c2), hash_rows[c2])
        if hash_rows[c2] != w:
            ctx.report("C06-charclass", "hash/%s" % chr(c2), "#%s reads as %s, expected %s" % (chr(c2), hash_rows[c2], w), where_of(tn))
    ch_row = scripted(tn, [ord("#"), ord("\\"), ord("x")], None, lexenv())[0]
    if not ch_row.startswith("tok:Primitive:Character"):
        ctx.report("C06-charclass", "hash/backslash", "#\\x reads as %s" % ch_row, where_of(tn))
    ctx.floor("C06-charclass", 12)

    # ------------------------------------------------------------------ C06-escapes
    ctx.rule("C06-escapes", "string escapes denote the R7RS characters; unknown escapes are errors")
    # whole-lexer runs (lexrun.py): the string "\<e>" for every character e of the alphabet, a plain string, an unterminated one
    from . import lexrun as _lr
    d_esc = 0
    sf = fb.find(LEX + "string")
    esc_bad = []
    for e in ALPHABET:
        toks = _lr.lex(fb, '"\\' + chr(e) + '" ')
        if toks and toks[-1][0] in ("stuck", "panic"):
            continue
        d_esc += 1
        first = toks[0] if toks else None
        if first is not None and first[0] == "String":
            got = first[1]
        elif first is not None and first[0] == "error":
            got = "error"
        else:
            got = repr(first)
        want = chr(R7RS_ESC[chr(e)]) if chr(e) in R7RS_ESC else "error"
        ctx.inst("C06-escapes", "\\" + (chr(e) if 32 < e < 127 else "U+%04X" % e), {"reads_as": got})
        if chr(e) in R7RS_ESC:
            if got != want:
                esc_bad.append(("escape/%s" % chr(e), "\\%s denotes %r, R7RS: U+%04X" % (chr(e), got, R7RS_ESC[chr(e)])))
        elif got != "error":
            if e in (ord("x"), 10, 13, 32, 9) and isinstance(got, str) and got not in ("", chr(e)):
                continue              # some other explicit handling (a hex scanner, a line continuation): not judged here
            name = {32: "space", 10: "newline", 9: "tab", ord("x"): "x"}.get(e, "U+%04X" % e)
            esc_bad.append(("escape/" + name, "the escape \\%s is accepted and reads as %r (neither an R7RS escape with that meaning nor an "
                            "error)" % (name, got)))
    for key, msg in esc_bad:
        ctx.report("C06-escapes", key, msg, where_of(sf))
    pl = _lr.lex(fb, '"ab" ')
    if pl and pl[-1][0] not in ("stuck", "panic"):
        d_esc += 1
        if [(k, p_) for k, p_, *_ in pl] != [("String", "ab")]:
            ctx.report("C06-escapes", "plain", "the string \"ab\" is read as %s" % ([(k, p_) for k, p_, *_ in pl],), where_of(sf))
    un = _lr.lex(fb, '"ab')
    if un and un[-1][0] not in ("stuck", "panic"):
        d_esc += 1
        if not any(t_[0] == "error" for t_ in un):
            ctx.report("C06-escapes", "unterminated", "an unterminated string is not an error (%s)" % (un,), where_of(sf))

    def _old_escapes():
        sf = fb.find(LEX + "string")
        table = {}
        for e in ALPHABET:
            out, ev = scripted(sf, [ord("\\"), e], None, lexenv(34))
            pushes = [x[1] for x in ev if x[0] == "push"]
            if out == "err":
                table[e] = "error"
            elif pushes:
                table[e] = pushes[0]
            elif out == "more":
                table[e] = "dropped"
            else:
                table[e] = out
        for ch, code in R7RS_ESC.items():
            ctx.inst("C06-escapes", "\\" + ch, table[ord(ch)])
            if table[ord(ch)] != code:
                ctx.report("C06-escapes", "escape/%s" % ch, "\\%s denotes %r, R7RS: U+%04X" % (ch, table[ord(ch)], code), where_of(sf))
        for e in ALPHABET:
            if chr(e) in R7RS_ESC:
                continue
            v = table[e]
            if v == "error":
                continue
            name = {32: "space", 10: "newline", 9: "tab", ord("x"): "x"}.get(e, "U+%04X" % e)
            ctx.inst("C06-escapes", "other/" + name, v)
            if e in (ord("x"), 10, 13, 32, 9) and v not in ("dropped",) and not isinstance(v, int):
                continue  # some other explicit handling (e.g. a hex scanner): not judged here
            ctx.report("C06-escapes", "escape/" + name, "the escape \\%s is accepted and %s (neither an R7RS escape with that "
                       "meaning nor an error)" % (name, "silently dropped" if v == "dropped" else "reads as %r" % (v,)), where_of(sf))
        # plain characters are pushed unchanged, `"` terminates
        out, ev = scripted(sf, [ord("a"), ord('"')], None, lexenv(34))
        if [x for x in ev if x[0] == "push"] != [("push", ord("a"))] or out != "tok:Primitive:String":
            ctx.report("C06-escapes", "plain", "a plain character is not appended unchanged / the closing quote does not end the "
                       "string (%s, %s)" % (out, ev), where_of(sf))
        if scripted(sf, [None], None, lexenv(34))[0] != "err":
            ctx.report("C06-escapes", "unterminated", "an unterminated string is not an error", where_of(sf))


    ctx.guarded("C06-escapes", d_esc >= 100, _old_escapes)

    # ------------------------------------------------------------------ C06-position
    ctx.rule("C06-position", "every consumed character is counted: LF => line+1, column=1; otherwise column+1")
    adv = fb.find(LEX + "advance")
    for f in fb.all("lib"):
        for b, t in f.calls():
            direct = callee_matches(t, "<std::iter::Peekable as std::iter::Iterator>::next", "Peekable::next_if", "Peekable::next_if_eq") \
                and "char" in " ".join(t.get("argtys", [])) + f.local_ty(t["dest"]["local"])
            # ... or any other iterator method applied straight to the character stream (find, position, nth, any, all, for_each, fold ...)
            through = (callee(t) or "").startswith("std::iter::Iterator::") and (t.get("argtys") or [""])[0].replace("&mut ", "").replace("&", "").strip().startswith("std::iter::Peekable<") \
                and (callee(t) or "").rsplit("::", 1)[-1] in ("find", "position", "nth", "any", "all", "for_each", "fold", "try_fold", "count", "last", "find_map", "try_for_each", "skip_while", "take_while", "map_while", "by_ref", "collect")
            if direct or through:
                owner = f.name
                ctx.inst("C06-position", "consumer/" + owner)
                callers_ = fb.callers("lib")

                def only_from_advance(nm, depth=3):
                    nm = nm.split("::{closure")[0]
                    if nm == adv.name:
                        return True
                    cs = {x.split("::{closure")[0] for x in callers_.get(nm, ())} - {nm}
                    return depth > 0 and bool(cs) and all(only_from_advance(x, depth - 1) for x in cs)
                if owner != adv.name and owner.startswith("parser::lexer::") and not only_from_advance(owner):
                    # a scanner that takes characters itself has to keep the position itself: decided by where the whole lexer puts the
                    # tokens of the layout texts (strings, |identifiers| and comments that span lines, CRLF, tabs, blank lines)
                    from . import lexrun as _lx
                    tv = _lx.token_locations_verdict(fb)
                    if tv is True:
                        ctx.inst("C06-position", "consumer/" + owner + "/keeps-the-position-itself", {"token_locations": "as expected"})
                    elif tv is None:
                        ctx.undecided("C06-position", "consumer/" + owner, "%s consumes characters without Lexer::advance and the lexer cannot "
                                      "be followed on the layout texts that would show whether it keeps the position itself" % owner, where_of(f, t))
                    else:
                        ctx.report("C06-position", "consumer/" + owner, "%s consumes a character without Lexer::advance and the position is "
                                   "not kept: the tokens m1 m2 m3 of %r are located %s, expected %s" % (owner, tv[1], tv[2], tv[3]), where_of(f, t))
    # decision table of advance(1) by abstract evaluation of the whole function (helpers followed): position after a character
    from . import machine
    lx = fb.adt("parser::lexer::Lexer")["variants"][0]["fields"]
    li = next(i for i, fdef in enumerate(lx) if fdef["name"] == "location")
    for c, want in ((10, [6, 1]), (ord("a"), [5, 8]), (13, [5, 8]), (None, [5, 7])):
        lexer = [absint.UNKNOWN for _ in lx]
        lexer[li] = [5, 7]

        def icpt(mc, cn, a, tt, g, c=c):
            if cn.endswith("Peekable as std::iter::Iterator>::next"):
                return machine.none() if c is None else machine.some(c)
            return machine.NOT
        key = "advance/%s" % ("EOF" if c is None else ("LF" if c == 10 else ("CR" if c == 13 else "char")))
        try:
            machine.Machine(fb, intercept=icpt, max_visits=4).run(adv, [lexer, 1])
            loc = [absint.deref(x) for x in lexer[li]] if isinstance(lexer[li], list) else lexer[li]
        except (absint.Stuck, absint.Loop) as ex:
            ctx.undecided("C06-position", key, "cannot follow advance (%s)" % ex, where_of(adv))
            continue
        ctx.inst("C06-position", key, {"from": [5, 7], "to": loc})
        ctx.oblige(loc == want)
        if loc != want:
            ctx.report("C06-position", key, "after %s the position goes from [5,7] to %s, expected %s" % (
                "end of input" if c is None else repr(chr(c)), loc, want), where_of(adv))

    # ------------------------------------------------------------------ C06-structure
    ctx.rule("C06-structure", "parentheses, dotted tails, vector syntax and the quote abbreviation build exactly the structure they denote, "
                              "whatever blanks, line breaks and comments separate the tokens: thirty structure texts in four (thorough: six) "
                              "layouts read by the crate's own lexer and parser (readtables.py), against the framework's independent reader")
    from . import readtables
    readtables.rule_structure(ctx, "C06-structure")

    # ------------------------------------------------------------------ C06-file-text
    ctx.rule("C06-file-text", "source read from a file reaches the reader unchanged (line ends kept or CRLF folded, at most a final newline "
                              "added): fourteen file texts, among them the character #\\space as the last token of a line and strings / "
                              "|symbols| with blanks before a raw line break (table of file_char_stream, shared with C17)")
    from . import ioerrors as _io06
    _io06.rule_stream(ctx, "C06-file-text")

    # ------------------------------------------------------------------ C06-quote
    ctx.rule("C06-quote", "'x builds (quote x) and the evaluator routes that keyword to transform_quote")
    pq = fb.find("parser::parser::Parser::parse_quoted")
    syms = [mir.str_of(pq, t["args"][0]) for _, t in pq.calls() if callee_matches(t, "ToString>::to_string", "ToOwned>::to_owned", "String::from")]
    tts = fb.find("parser::parser::Parser::transform_to_statement")
    kw = {}
    for b, lit, tt, ft in mir.string_tests(tts):
        reg = mir.dominated_region(tts, tt)
        kw[lit] = sorted({callee(t).rsplit("::", 1)[-1] for _, t in tts.calls(reg) if (callee(t) or "").startswith("parser::parser::Parser::transform_")})
    routed = [k for k, v in kw.items() if v == ["transform_quote"]]
    ctx.inst("C06-quote", "symbol", {"built": syms, "routed_to_transform_quote": routed})
    # 'x and (quote x) are parsed as the same quotation (crate's lexer and parser followed; the structure 'x denotes is C06-structure);
    # the shape of parse_quoted only when the parser cannot be followed
    from . import readtables as _rt06
    kq = _rt06.rule_keywords(ctx, "C06-quote", only={"quote", "quote-abbreviation"})

    def _quote_shape():
        if not syms or any(s not in routed for s in syms if s is not None) or None in syms:
            ctx.report("C06-quote", "keyword", "the quote abbreviation builds %s but transform_quote is reached by %s" % (syms, routed), where_of(pq))
        # the list built is (quote <inner>) in that order
        mac = [t for _, t in pq.calls() if callee_matches(t, "Iterator::collect", "FromIterator>::from_iter")]
        if not mac:
            ctx.report("C06-quote", "list", "no list construction found in parse_quoted", where_of(pq))
    ctx.guarded("C06-quote", bool(kq) and all(v is not None for v in kq.values()), _quote_shape)

    # ------------------------------------------------------------------ C06-delimited
    ctx.rule("C06-delimited", "tokens end only at delimiters: last event before a token exit is delimiter evidence")
    d_del = delimited_table(ctx, fb)
    # (the path analysis below is the older, shape-bound formulation of the same rule: a fallback when the table cannot decide)
    ctx.guarded("C06-delimited", d_del >= 9, lambda: delimited(ctx, fb, disp))
    consumption(ctx, fb)
    return EXPLANATION, NOT_DECIDED


# =============================================================================================


def delimited_table(ctx, fb):
    """token x follower table (lexrun.py): a token of a class that is not self-delimiting, immediately followed by a character
    that is not a delimiter, must not be split into that token and another one — it is one longer token or an error; followed by
    a delimiter it is that token.  Returns the number of decided rows."""
    from . import lexrun
    classes = {"Integer": "12", "Real": "1.5", "Real-exponent": "1e5", "Real-dot": "1.", "Rational": "1/2", "Identifier": "ab",
               "Peculiar-identifier": "+", "Boolean": "#t", "Character": "#\\a"}
    kind_of = {"Real-exponent": "Real", "Real-dot": "Real", "Peculiar-identifier": "Identifier"}
    nondelim = ["x", "7", "#", "'", ",", "`", ".", "+", "{", "\\"]
    delim = [" ", "\t", "\n", "\r", "(", ")", "\"", ";", "|"]
    tn = fb.find(LEX + "try_next")
    decided = 0
    for cls, txt in classes.items():
        k = kind_of.get(cls, cls)
        splits, stuck, wrong = [], 0, []
        for fol in nondelim:
            toks = lexrun.lex(fb, txt + fol + " ")
            if toks and toks[-1][0] == "stuck":
                stuck += 1
                continue
            kinds = [t[0] for t in toks]
            if len(kinds) >= 2 and kinds[0] == k and toks[0][1] == lexrun.lex(fb, txt + " ")[0][1]:
                splits.append(fol)
        for fol in delim:
            toks = lexrun.lex(fb, txt + fol + " ")
            if toks and toks[-1][0] == "stuck":
                stuck += 1
                continue
            if not toks or toks[0][0] != k:
                wrong.append(fol)
        if stuck:
            ctx.undecided("C06-delimited", "%s/table" % cls, "%d follower rows could not be followed" % stuck, where_of(tn))
            continue
        decided += 1
        ctx.inst("C06-delimited", "%s/followers" % cls, {"split_before": splits, "not_recognised_before_delimiter": wrong})
        ctx.oblige(not splits and not wrong)
        if splits:
            ctx.report("C06-delimited", "%s/split" % cls, "a %s token immediately followed by one of %s is split into two tokens (e.g. %r reads as "
                       "%s): the text is not rejected and not read as one token" % (cls, splits, txt + splits[0],
                                                                                     [t[:2] for t in lexrun.lex(fb, txt + splits[0] + " ")]), where_of(tn))
        if wrong:
            ctx.report("C06-delimited", "%s/delimiter" % cls, "%r followed by the delimiter(s) %s is not read as a %s" % (txt, wrong, k), where_of(tn))
    return decided


def delimited(ctx, fb, disp):
    scanners = [f for f in fb.all("lib") if f.name.startswith(LEX) and "{closure" not in f.name]
    by = {f.name: f for f in scanners}
    adv_name = LEX + "advance"
    td_name = LEX + "test_delimiter"
    SELF_DELIMITING = {LEX + "string", LEX + "quoted_identifier"}

    def raw_consumes(f):
        return {b for b, t in f.calls() if callee(t) == adv_name or callee_matches(t, "<std::iter::Peekable as std::iter::Iterator>::next")}
    # may_consume: transitive
    may = {f.name: bool(raw_consumes(f)) for f in scanners}
    changed = True
    while changed:
        changed = False
        for f in scanners:
            if not may[f.name] and any(may.get(callee(t), False) for _, t in f.calls()):
                may[f.name] = True
                changed = True

    checkers = set()

    def evidence_blocks(f, checked):
        ev = set()
        p = Prov(f)
        for b, t in f.calls():
            c = callee(t)
            if c == td_name:
                # result must be propagated (`?`) or returned
                ev.add(t["target"] if t.get("target") is not None else b)
            elif (c in checked and may.get(c)) or c in checkers:
                ev.add(t["target"] if t.get("target") is not None else b)
            elif callee_matches(t, "std::iter::Peekable::peek"):
                sw = mir.result_switch_after(f, b)
                if sw:
                    none_t = sw[1].get(0, sw[2])
                    if none_t is not None and none_t != sw[1].get(1, None):
                        ev.add(none_t)
        return ev

    def consuming_blocks(f, checked):
        cons = set(raw_consumes(f))
        for b, t in f.calls():
            c = callee(t)
            if c in by and c not in (adv_name, td_name) and may.get(c) and c not in checked and c != f.name \
                    and c not in (LEX + "try_next", LEX + "atmosphere", LEX + "comment"):
                cons.add(b)
        return cons

    def err_blocks(f):
        out = set()
        for b, i, s, a, v in mir.aggregates(f):
            if v == "Err" and s["place"]["local"] == 0:
                out.add(b)
        for b, t in f.calls():
            if callee_matches(t, "FromResidual>::from_residual"):
                out.add(b)
        return out

    def noop_advances(f, ev):
        """advance calls that sit directly on a peek()==None edge (nothing left to consume)."""
        out = set()
        for e in ev:
            region = mir.dominated_region(f, e)
            for b in region & raw_consumes(f):
                path = mir.paths_avoiding(f, e, [b], (raw_consumes(f) - {b}))
                if path is not None and not any(x in raw_consumes(f) for x in path[:-1]):
                    # only if `e` really is a None-edge (not a test_delimiter continue)
                    out.add(b)
        return out

    def none_edges(f):
        ev = set()
        for b, t in f.calls():
            if callee_matches(t, "std::iter::Peekable::peek"):
                sw = mir.result_switch_after(f, b)
                if sw:
                    none_t = sw[1].get(0, sw[2])
                    if none_t is not None and none_t != sw[1].get(1, None):
                        ev.add(none_t)
        return ev

    # pure checkers: helpers that consume nothing and return normally only past delimiter evidence
    # (least fixpoint, so a helper may itself go through another helper)
    for _ in range(3):
        for f in scanners:
            if may[f.name] or f.name in (adv_name, td_name) or f.name in checkers:
                continue
            ev = evidence_blocks(f, set())
            if ev and mir.paths_avoiding(f, 0, f.return_blocks(), ev | err_blocks(f)) is None:
                checkers.add(f.name)
    # summaries: ends_checked (greatest fixpoint: start optimistic for non-recursive helpers)
    checked = set()
    for _ in range(4):
        new = set()
        for f in scanners:
            if f.name in (adv_name, td_name, LEX + "try_next") or not may[f.name]:
                continue
            ev = evidence_blocks(f, checked)
            noop = set()
            for e in none_edges(f):
                for b in mir.dominated_region(f, e) & raw_consumes(f):
                    noop.add(b)
            cons = consuming_blocks(f, checked) - noop
            errs = err_blocks(f)
            rets = f.return_blocks()
            ok = True
            for X in [None] + sorted(cons):
                start = 0 if X is None else f.blocks[X]["term"].get("target")
                if start is None:
                    continue
                if mir.paths_avoiding(f, start, rets, ev | errs | (cons - {X}) | infeasible(fb, f, disp)) is not None:
                    ok = False
            if ok:
                new.add(f.name)
        if new == checked:
            break
        checked = new
    ctx.inst("C06-delimited", "summaries", {"ends_with_delimiter_evidence": sorted(x.rsplit("::", 1)[-1] for x in checked),
                                            "pure_checkers": sorted(x.rsplit("::", 1)[-1] for x in checkers),
                                            "consuming": sorted(k.rsplit("::", 1)[-1] for k, v in may.items() if v)})

    CLASSES = ("Identifier", "Integer", "Real", "Rational", "Boolean", "Character")
    n_exits = 0
    for f in scanners:
        if f.name in SELF_DELIMITING or f.name in (adv_name, td_name):
            continue
        exits = []
        for b, i, s, a, v in mir.aggregates(f, None, "TokenData"):
            cls = None
            if v == "Identifier":
                cls = "Identifier"
            elif v == "Primitive":
                agg = mir.trace_aggregate(f, s["rv"]["ops"][0])
                if agg and agg["kind"]["k"] == "adt":
                    cls = agg["kind"]["variant"]
            if cls in CLASSES and not f.blocks[b]["cleanup"]:
                exits.append((b, cls))
        if not exits:
            continue
        ev = evidence_blocks(f, checked)
        noop = set()
        for e in none_edges(f):
            for b in mir.dominated_region(f, e) & raw_consumes(f):
                noop.add(b)
        cons = consuming_blocks(f, checked) - noop
        inf = infeasible(fb, f, disp)
        for (B, cls) in exits:
            n_exits += 1
            bad = []
            starts = [(None, 0)] if f.name != LEX + "try_next" else []
            starts += [(X, f.blocks[X]["term"].get("target")) for X in sorted(cons)]
            for X, start in starts:
                if start is None:
                    continue
                w = mir.paths_avoiding(f, start, [B], ev | (cons - {X}) | inf)
                if w is not None:
                    via = "entry" if X is None else (callee(f.blocks[X]["term"]) or "?").rsplit("::", 1)[-1]
                    bad.append((via, w))
            short = f.name.rsplit("::", 1)[-1]
            ctx.inst("C06-delimited", "%s/%s@bb%d" % (short, cls, B), {"unchecked_after": sorted({v for v, _ in bad})})
            ctx.oblige(not bad)
            for via in sorted({v for v, _ in bad}):
                w = next(x for v, x in bad if v == via)
                ctx.report("C06-delimited", "%s/%s/after-%s" % (short, cls, via),
                           "a %s token is produced in %s after `%s` consumed input, with no delimiter check on the following "
                           "character (text such as the token immediately followed by letters is split into two tokens); "
                           "path blocks %s" % (cls, short, via, w), where_of(f, span=f.blocks[B]["stmts"][0]["span"] if f.blocks[B]["stmts"] else None))
    if n_exits < 8:
        ctx.undecided("C06-delimited", "floor", "only %d token exits analysed (expected >= 8)" % n_exits)


_INF_CACHE = {}


def infeasible(fb, f, disp):
    """Targets of switches on `self.current`'s character that the dispatcher can never select."""
    key = f.name
    if key in _INF_CACHE:
        return _INF_CACHE[key]
    short = f.name.rsplit("::", 1)[-1]
    chars = {c for c, row in disp.items() if any(v == "->" + short for v in row.values())}
    out = set()
    if chars:
        preds = f.preds()
        for b, blk in enumerate(f.blocks):
            t = blk["term"]
            if t["k"] != "switch" or t.get("dty") != "char":
                continue
            root, path = mir.trace_access(f, t["discr"])
            names = []
            pl = mir.op_place(t["discr"])
            # accept `(self.current as Some).0` directly or through one copy
            txt = mir.trace_place(f, t["discr"])[0]
            if "current" not in txt:
                continue
            listed = {v for v, _ in t["targets"]}
            for v, bb in t["targets"]:
                if v not in chars and len(preds[bb]) == 1:
                    out.add(bb)
            if chars <= listed and len(preds[t["otherwise"]]) == 1:
                out.add(t["otherwise"])
    _INF_CACHE[key] = out
    return out


# =============================================================================================
# C06-consume-inspected: no character leaves the stream without having been looked at


def _inspected(f, local, depth=6, seen=None):
    """Is the value in `local` looked at (matched, compared, stored) rather than dropped?"""
    seen = seen if seen is not None else set()
    if local in seen or depth < 0:
        return False
    seen.add(local)
    for b, blk in enumerate(f.blocks):
        if blk["cleanup"]:
            continue
        for s in blk["stmts"]:
            if s["k"] != "assign":
                continue
            rv = s["rv"]
            used = any(p["local"] == local for p in mir.rv_places(rv))
            if not used:
                continue
            if rv["k"] == "aggregate":
                return True
            if rv["k"] in ("binop", "unop"):
                return True
            if s["place"]["local"] == 0:
                return True
            if _inspected(f, s["place"]["local"], depth - 1, seen):
                return True
        t = blk["term"]
        if t["k"] == "switch" and mir.op_local(t["discr"]) == local:
            return True
        if t["k"] == "call" and any(mir.op_local(a) == local for a in t["args"]):
            if callee_matches(t, "Option<T>::take", "Option::take", "Option<T>::unwrap", "Option::unwrap", "Option<T>::as_ref", "Option::as_ref",
                              "Option<T>::as_mut", "Option::as_mut", "Deref>::deref", "DerefMut>::deref_mut", "Clone>::clone",
                              "Option<T>::copied", "Option::copied", "Option<T>::cloned", "Option::cloned"):
                if _inspected(f, t["dest"]["local"], depth - 1, seen):
                    return True
            else:
                return True
    return False


def consumption(ctx, fb):
    ctx.rule("C06-consume-inspected", "no character is consumed unseen: with one character of lookahead, `advance(k)` may take at "
                                      "most the character just peeked plus one whose value the caller then examines (so layout "
                                      "can only drop characters the lexer classified as layout)")
    scanners = [f for f in fb.all("lib") if f.name.startswith(LEX) and "{closure" not in f.name]
    by = {f.name: f for f in scanners}
    adv_name = LEX + "advance"
    entry = {f.name: 1 for f in scanners}
    exit_ = {f.name: 1 for f in scanners}
    called = set()
    entry[LEX + "try_next"] = 0

    def flow(f, record=None):
        """forward dataflow of `known lookahead` (0/1); returns (state at returns, {callee: min state at its call sites})"""
        st = {0: entry[f.name]}
        work = [0]
        sites = {}
        while work:
            b = work.pop()
            s = st[b]
            t = f.blocks[b]["term"]
            out = s
            if t["k"] == "call":
                c = callee(t) or ""
                if c == adv_name:
                    k = mir.const_int(t["args"][1]) if len(t["args"]) > 1 else None
                    if record is not None and not f.blocks[b]["cleanup"]:
                        record.append((b, t, k, s))
                    out = 0
                elif callee_matches(t, "std::iter::Peekable::peek"):
                    out = 1
                elif callee_matches(t, "<std::iter::Peekable as std::iter::Iterator>::next", "Peekable::next_if", "Peekable::next_if_eq"):
                    if record is not None and not f.blocks[b]["cleanup"]:
                        record.append((b, t, 1, s))
                    out = 0
                elif c in by and c != f.name:
                    sites[c] = min(sites.get(c, 1), s)
                    out = exit_[c]
                elif c == f.name:
                    sites[c] = min(sites.get(c, 1), s)
                    out = exit_[c]
            for n in f.succs(b):
                if f.blocks[n]["cleanup"]:
                    continue
                if n not in st or out < st[n]:
                    st[n] = out
                    work.append(n)
        rets = [st[b] for b in f.return_blocks() if b in st]
        return (min(rets) if rets else 1), sites
    for _ in range(12):
        changed = False
        for f in scanners:
            if f.name == adv_name:
                continue
            ex, sites = flow(f)
            if ex < exit_[f.name]:
                exit_[f.name] = ex
                changed = True
            for c, s in sites.items():
                called.add(c)
                if c != LEX + "try_next" and s < entry[c]:
                    entry[c] = s
                    changed = True
        if not changed:
            break
    n = 0
    for f in scanners:
        if f.name == adv_name:
            continue
        rec = []
        flow(f, rec)
        short = f.name.rsplit("::", 1)[-1]
        for b, t, k, s in rec:
            n += 1
            used = 1 if _inspected(f, t["dest"]["local"]) else 0
            unseen = None if k is None else k - s - used
            ctx.inst("C06-consume-inspected", "%s/advance@bb%d" % (short, b), {"count": k, "lookahead_known": s, "result_examined": bool(used)})
            ctx.oblige(unseen is not None and unseen <= 0)
            if k is None:
                ctx.report("C06-consume-inspected", "%s/advance-count" % short, "advance is called with a non-constant count", where_of(f, t))
            elif unseen > 0:
                ctx.report("C06-consume-inspected", "%s/unseen" % short,
                           "`%s` consumes %d character(s) here but only %d are known (%s%s): %d character(s) of the input are dropped "
                           "without being looked at — data next to this layout/prefix changes silently" % (
                               (callee(t) or "").rsplit("::", 1)[-1], k, s + used, "one peeked" if s else "none peeked",
                               ", result examined" if used else ", result discarded", unseen), where_of(f, t))
    ctx.inst("C06-consume-inspected", "summaries", {"entry_lookahead": {k.rsplit("::", 1)[-1]: v for k, v in sorted(entry.items())},
                                                    "exit_lookahead": {k.rsplit("::", 1)[-1]: v for k, v in sorted(exit_.items())}})
    if n < 15:
        ctx.undecided("C06-consume-inspected", "floor", "only %d consumption sites analysed (expected >= 15)" % n)
