#!/usr/bin/env python3
"""Developer helper: run checks against a scratch copy of /repo with one textual edit.
usage: trymut.py <Cnn[,Cmm]> <relative file> <old text> <new text>   (old must occur exactly once)
       trymut.py <Cnn> --patch file.diff
The scratch copy lives under /tmp and is removed afterwards; evidence files are restored."""
import os, shutil, subprocess, sys, tempfile
VERIF = os.path.dirname(os.path.dirname(os.path.abspath(__file__)))
props = sys.argv[1].split(",")
work = tempfile.mkdtemp(prefix="mut-")
try:
    subprocess.check_call(["rsync", "-a", "--exclude", "target", "--exclude", ".git", "/repo/", work + "/"])
    if sys.argv[2] == "--patch":
        subprocess.check_call(["patch", "-p1", "-s", "-d", work, "-i", os.path.abspath(sys.argv[3])])
    else:
        fn, old, new = sys.argv[2], sys.argv[3], sys.argv[4]
        p = os.path.join(work, fn)
        s = open(p).read()
        if s.count(old) != 1:
            print("old text occurs %d times" % s.count(old)); sys.exit(2)
        open(p, "w").write(s.replace(old, new))
    evd = tempfile.mkdtemp(prefix="mut-ev-")
    env = dict(os.environ, VERIF_REPO=work, VERIF_EVIDENCE_DIR=evd)
    for pr in props:
        r = subprocess.run([os.path.join(VERIF, "check"), pr], env=env, cwd=VERIF)
        print("== %s exit %d" % (pr, r.returncode))
    shutil.rmtree(evd, ignore_errors=True)
finally:
    shutil.rmtree(work, ignore_errors=True)
