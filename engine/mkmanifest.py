#!/usr/bin/env python3
"""Regenerate /verif/MANIFEST.json from the rule modules that exist."""
import json, os, importlib, sys
HERE = os.path.dirname(os.path.abspath(__file__))
VERIF = os.path.dirname(HERE)
sys.path.insert(0, HERE)

TECH = {
    "C01": "MIR provenance + decision tables (lexical scoping, truthiness, once-only evaluation, dispatch)",
    "C02": "MIR arm slicing + call-graph cycle analysis + abstract expansion of grammar.sld (tail positions)",
    "C03": "who-may-call / provenance over MIR (frames and vectors shared by Rc, never copied)",
    "C04": "MIR path and data-dependence rules on the syntax-rules matcher/expander",
    "C05": "static analysis of grammar.sld by abstract macro expansion (capture, multiplicity, scope, selection)",
    "C06": "must-pass-through (delimiter check) + character-class decision tables read from MIR",
    "C07": "panic-site census over the resolved call graph with checked discharge arguments",
    "C08": "interprocedural must-pass-through (arity per application), error-edge and error-discipline census",
    "C09": "decision tables + interval/sign abstract interpretation of the exact-arithmetic MIR",
    "C10": "registry/operator table join, loop-shape and cross-multiplication provenance over MIR",
    "C11": "scope/arity/recursion-shape analysis of scheme/base.sld + native car/cdr decision tables",
    "C12": "MIR arm slicing, closure polarity and provenance of the import-set evaluator",
    "C13": "environment provenance + memoisation-pattern path rule over MIR",
    "C14": "acquire/release pairing on all exits + call-graph cycle cut + who-may-write (MIR)",
    "C15": "location provenance / taint over MIR (fallback choke point, offender, foreign-text sources)",
    "C16": "printer/reader token-table agreement from format templates and lexer decision tables",
    "C17": "MIR path rules on main (exit status, stderr-only diagnostic, template) + stdout writer census",
    "C18": "REPL loop pairing/shape rules + completeness-test vs reader context agreement (MIR)",
    "C19": "census + escape analysis of global mutable state reachable from interpreter instances",
}

def main():
    props = [json.loads(l) for l in open(os.path.join(VERIF, "properties.jsonl"))]
    checks, na = [], []
    for p in props:
        pid = p["id"]
        modfile = os.path.join(HERE, "rules", pid.lower() + ".py")
        if not os.path.exists(modfile):
            na.append({"property_id": pid, "reason": "static check for this property is not built yet in this revision "
                       "(design: DESIGN.md section 4, %s); no verdict is claimed" % pid})
            continue
        mod = importlib.import_module("rules." + pid.lower())
        text = ("Static analysis (no execution): decides the structural necessary conditions of %s on the MIR / bundled "
                "Scheme sources of /repo's current tree. %s A pass means those conditions hold; it is NOT a proof of the "
                "behavioural statement. Not decided: %s") % (pid, mod.EXPLANATION, mod.NOT_DECIDED)
        checks.append({
            "property_id": pid,
            "quick_cmd": "./check %s --tier quick" % pid,
            "thorough_cmd": "./check %s --tier thorough" % pid,
            "evidence_file": "/verif/evidence/%s.json" % pid,
            "replay_cmd_template": "./check %s --replay {path}" % pid,
            "engine": "ruschm-static",
            "level_claimed": {"category": "other", "text": text, "design_ref": "DESIGN.md section 4, " + pid},
            "level_note": "Trusted: rustc nightly HIR/MIR construction and callee resolution, the facts driver's "
                          "serialisation, the effect table for external generic leaves, and (for grammar.sld / base.sld) "
                          "the framework's own R7RS reader. Rules anchor on def-paths and fail closed when an anchor "
                          "or an instance floor is missing.",
            "technique": "static analysis: " + TECH[pid],
        })
    man = {
        "version": 1,
        "setup_cmd": "cd /verif && ./setup.sh",
        "hooks": {
            "guard": "ruschm_verif",
            "enable": "none needed: the analysis reads the compiler's MIR of the unmodified sources "
                      "(cargo +nightly check with RUSTC_WORKSPACE_WRAPPER=engine/factsdrv)",
            "baseline_off_cmd": "cd /repo && cargo test --workspace --no-fail-fast --offline",
            "source_commits": [],
            "add_only": True,
        },
        "engines": [
            {"name": "ruschm-static", "path": "engine/",
             "serves_properties": [c["property_id"] for c in checks],
             "kind_free_text": "rustc_private facts driver (MIR, resolved callees, ADTs, globals) + Python rule "
                               "library (CFG/dominators, provenance, arm slicing, decision tables, pairing, census) + "
                               "Scheme-source analyser for the bundled .sld files"}],
        "checks": checks,
        "not_applicable": na,
        "notes": "Technique family: static analysis only. Every check re-extracts facts from /repo's current working "
                 "tree (cached by content hash under /verif/.cache). Known findings: /verif/known_findings.json.",
    }
    with open(os.path.join(VERIF, "MANIFEST.json"), "w") as fh:
        json.dump(man, fh, indent=1)
    print("checks:", [c["property_id"] for c in checks], "n/a:", [n["property_id"] for n in na])

main()
