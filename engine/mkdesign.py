#!/usr/bin/env python3
"""Regenerate the generated tables of DESIGN.md (between <!-- BEGIN:x --> / <!-- END:x --> markers) from seeded/*/meta.json,
known_findings.json and the last battery logs under .cache/."""
import glob, json, os, re
V = os.path.dirname(os.path.dirname(os.path.abspath(__file__)))


def seeds_table():
    rows = ["| Seed | Breaks | What it needs to manifest | Reported by (rules) | Note |", "|---|---|---|---|---|"]
    for d in sorted(glob.glob(os.path.join(V, "seeded", "C*"))):
        mp = os.path.join(d, "meta.json")
        if not os.path.exists(mp):
            continue
        m = json.load(open(mp))
        caught = "; ".join("**%s**: %s" % (c["property"], ", ".join(sorted({r.split("/", 1)[0] + ("/" + r.split("/", 2)[1] if r.count("/") else "") for r in c["rules"]})[:3]))
                           for c in m.get("caught_by", []))
        rows.append("| %s | %s | %s | %s | %s |" % (m["seed"], m["breaks_property"], m["needs_to_manifest"].replace("|", "\\|")[:230], caught or "—", (m.get("note") or "").replace("|", "\\|")[:260]))
    return "\n".join(rows)


def benign_table():
    log = os.path.join(V, ".cache", "benign-all.log")
    if not os.path.exists(log):
        log = os.path.join(V, "engine", "benign-last.log")      # (the committed copy of the last battery's results)
    res = {}
    if os.path.exists(log):
        for l in open(log):
            m = re.match(r"(\S+)\.diff: (.*)", l.strip())
            if m:
                res[m.group(1)] = m.group(2)
    rows = ["| Variant | Result of all 19 checks |", "|---|---|"]
    for p in sorted(glob.glob(os.path.join(V, "seeded", "benign", "*.diff"))):
        n = os.path.basename(p)[:-5]
        r = res.get(n, "(not run)")
        r = re.sub(r"FALSE ALARMS \[(.*)\]$", lambda mm: "ALARM: " + ", ".join(sorted(set(re.findall(r"'(C\d\d-[^:'/]+)", mm.group(1))))), r)
        rows.append("| %s | %s |" % (n, r[:200]))
    return "\n".join(rows)


def findings_tables():
    d = json.load(open(os.path.join(V, "known_findings.json")))
    a = ["| Property | Fix commit | What failed |", "|---|---|---|"]
    for e in d["fixed"]:
        a.append("| %s | %s | %s |" % (e["property"], e["commit"], re.sub(r"^fixed: property=\S+ \S+ ", "", e["what"]).replace("|", "\\|")[:330]))
    b = ["| Property | Key (exact match) | What fails |", "|---|---|---|"]
    for e in d["known"]:
        b.append("| %s | `%s` | %s |" % (e["property"], e["key"], e["what"].replace("|", "\\|")[:300]))
    return "\n".join(a), "\n".join(b)


def main():
    p = os.path.join(V, "DESIGN.md")
    s = open(p).read()
    fx, kn = findings_tables()
    for name, txt in (("seeds", seeds_table()), ("benign", benign_table()), ("fixed", fx), ("known", kn)):
        rep = "<!-- BEGIN:%s -->\n%s\n<!-- END:%s -->" % (name, txt, name)
        s = re.sub(r"<!-- BEGIN:%s -->.*?<!-- END:%s -->" % (name, name), lambda m, rep=rep: rep, s, flags=re.S)
    open(p, "w").write(s)


if __name__ == "__main__":
    main()
