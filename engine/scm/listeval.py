"""Engine C: abstract interpretation of the bundled list library (scheme/base.sld) over symbolic lists.

The library's definitions are read by the framework's own reader, their derived forms expanded with the bundled grammar.sld
(semantics.expand), and the resulting core terms (lambda / if / quote / application) are evaluated here over

  * opaque atoms      Atom("A1") ...: compared only by identity (eq? / eqv?); a few carry a number (value, exactness) so that
                      eqv? and = can be told apart,
  * pairs and ()      built by `cons` / quoted data / rest parameters,
  * small integers    for indices and counts,
  * an opaque procedure argument: applying it records the event ("call", args) and yields a fresh atom.

Nothing of the interpreter is run: the native procedures the library imports from (ruschm base) are the small models below (each
is the contract the Rust-side rules of C11 / C10 / C01 decide: car/cdr/cons/pair? tables, eqv? exactness table, apply spreading,
operands evaluated left to right).  Lists are bounded (the rows say how long); an opaque atom stands for every non-pair value."""
from .reader import Sym, Lit, Dotted, Vec
from . import library, derived


class SchemeError(Exception):
    pass


class Unsupported(Exception):
    """a construct this evaluator has no rule for: no verdict"""


class Diverges(Exception):
    pass


class Atom:
    n = 0

    def __init__(self, tag, num=None, exact=True):
        self.tag, self.num, self.exact = tag, num, exact

    def __repr__(self):
        return self.tag


class Pair:
    def __init__(self, car, cdr):
        self.car, self.cdr = car, cdr

    def __repr__(self):
        return show(self)


class Nil:
    def __repr__(self):
        return "()"


NIL = Nil()
UNSPEC = Atom("#<unspecified>")


class Closure:
    def __init__(self, fixed, rest, body, env, name=None):
        self.fixed, self.rest, self.body, self.env, self.name = fixed, rest, body, env, name

    def __repr__(self):
        return "#<procedure %s>" % (self.name or "lambda")


class Native:
    def __init__(self, name, fn):
        self.name, self.fn = name, fn

    def __repr__(self):
        return "#<native %s>" % self.name


class OpaqueProc:
    """the procedure argument of map / for-each / the folds: its calls are the observable events"""
    def __init__(self, tag, trace, falsy=()):
        # falsy: the calls (1-based) that return #f — what the procedure returns is its own business, the library must not care
        self.tag, self.trace, self.k, self.falsy = tag, trace, 0, frozenset(falsy)

    def __repr__(self):
        return "#<%s>" % self.tag


def show(v):
    if isinstance(v, Pair):
        out = []
        while isinstance(v, Pair):
            out.append(show(v.car))
            v = v.cdr
        if v is not NIL:
            out += [".", show(v)]
        return "(" + " ".join(out) + ")"
    if v is True:
        return "#t"
    if v is False:
        return "#f"
    return repr(v)


def mklist(items, tail=NIL):
    r = tail
    for x in reversed(items):
        r = Pair(x, r)
    return r


def same(a, b):
    """structural equality of results with atoms by identity"""
    if isinstance(a, Pair) and isinstance(b, Pair):
        return same(a.car, b.car) and same(a.cdr, b.cdr)
    if isinstance(a, bool) or isinstance(b, bool):
        return a is b
    if isinstance(a, int) and isinstance(b, int):
        return a == b
    return a is b


def is_num(v):
    return (isinstance(v, int) and not isinstance(v, bool)) or (isinstance(v, Atom) and v.num is not None)


def num_of(v):
    return v if isinstance(v, int) else v.num


def exact_of(v):
    return True if isinstance(v, int) else v.exact


def eqv(a, b):
    if is_num(a) and is_num(b):
        return num_of(a) == num_of(b) and exact_of(a) == exact_of(b)
    if isinstance(a, bool) or isinstance(b, bool):
        return a is b
    return a is b


def _need_num(name, args):
    for a in args:
        if not is_num(a):
            raise SchemeError("%s: %s is not a number" % (name, show(a)))


def _chain(name, op):
    def f(ev, args):
        _need_num(name, args)
        return all(op(num_of(x), num_of(y)) for x, y in zip(args, args[1:]))
    return f


def _car(ev, args):
    if len(args) != 1:
        raise SchemeError("car: arity")
    if not isinstance(args[0], Pair):
        raise SchemeError("car: %s is not a pair" % show(args[0]))
    return args[0].car


def _cdr(ev, args):
    if len(args) != 1:
        raise SchemeError("cdr: arity")
    if not isinstance(args[0], Pair):
        raise SchemeError("cdr: %s is not a pair" % show(args[0]))
    return args[0].cdr


def _arith(name, op, unit):
    def f(ev, args):
        _need_num(name, args)
        if not all(isinstance(a, int) for a in args):
            raise SchemeError("%s on a symbolic number (outside this table)" % name)
        if name == "-" and len(args) == 1:
            return -args[0]
        r = args[0] if args else unit
        for a in args[1:]:
            r = op(r, a)
        return r
    return f


def _apply(ev, args):
    if len(args) < 1:
        raise SchemeError("apply: arity")
    spread = list(args[1:-1]) if len(args) > 1 else []
    last = args[-1] if len(args) > 1 else NIL
    while isinstance(last, Pair):
        spread.append(last.car)
        last = last.cdr
    if last is not NIL:
        raise SchemeError("apply: last argument is not a list")
    return ev.apply(args[0], spread)


def _arity(n, fn, name):
    def f(ev, args):
        if len(args) != n:
            raise SchemeError("%s: expected %d argument(s), got %d" % (name, n, len(args)))
        return fn(*args)
    return f


NATIVES = {
    "car": _car, "cdr": _cdr,
    "cons": _arity(2, lambda a, b: Pair(a, b), "cons"),
    "pair?": _arity(1, lambda a: isinstance(a, Pair), "pair?"),
    "eqv?": _arity(2, eqv, "eqv?"), "eq?": _arity(2, eqv, "eq?"),
    "not": _arity(1, lambda a: a is False, "not"),
    "=": _chain("=", lambda x, y: x == y), "<": _chain("<", lambda x, y: x < y), ">": _chain(">", lambda x, y: x > y),
    "<=": _chain("<=", lambda x, y: x <= y), ">=": _chain(">=", lambda x, y: x >= y),
    "+": _arith("+", lambda x, y: x + y, 0), "-": _arith("-", lambda x, y: x - y, 0), "*": _arith("*", lambda x, y: x * y, 1),
    "apply": _apply,
    "procedure?": _arity(1, lambda a: isinstance(a, (Closure, Native, OpaqueProc)), "procedure?"),
    "number?": _arity(1, is_num, "number?"), "boolean?": _arity(1, lambda a: isinstance(a, bool), "boolean?"),
}


class World:
    """the library as closures over one global environment"""

    def __init__(self, repo=None, fuel=20000):
        self.mf = derived.load(repo)
        if isinstance(self.mf, tuple):
            self.mf = self.mf[0]
        self.lib = library.load(library.BASE, repo)
        self.fuel0 = fuel
        self.genv = {}
        for n, fn in NATIVES.items():
            self.genv[n] = Native(n, fn)
        self.problems = []
        for name in self.lib.def_order:
            fm, body = self.lib.defs[name]
            try:
                cbody = [library.core(self.mf, b) for b in body]
            except Exception as e:
                self.problems.append((name, "cannot expand: %s" % e))
                continue
            if fm is None:
                self.genv[name] = ("thunk", cbody[0])      # (define name expr): evaluated at first use
            else:
                self.genv[name] = Closure(list(fm[0]), fm[1], cbody, None, name)
        self.native_names = set(NATIVES)

    def run(self, name, args, trace=None):
        ev = Eval(self, trace if trace is not None else [])
        f = ev.lookup(name, None)
        return ev.apply(f, list(args))


class Eval:
    def __init__(self, world, trace):
        self.w, self.trace, self.fuel = world, trace, world.fuel0

    def lookup(self, name, env):
        e = env
        while e is not None:
            if name in e[0]:
                return e[0][name]
            e = e[1]
        if name in self.w.genv:
            v = self.w.genv[name]
            if isinstance(v, tuple) and v[0] == "thunk":
                v = self.ev(v[1], None)
                if isinstance(v, Closure) and v.name is None:
                    v.name = name
                self.w.genv[name] = v
            return v
        raise SchemeError("unbound variable %s" % name)

    def quote(self, d):
        if isinstance(d, Sym):
            return Atom("'" + d.name)
        if isinstance(d, Lit):
            if d.kind == "bool":
                return bool(d.value)
            if d.kind in ("int", "integer", "number") and isinstance(d.value, int):
                return d.value
            return Atom(repr(d))
        if isinstance(d, Dotted):
            return mklist([self.quote(x) for x in d.items], self.quote(d.tail))
        if isinstance(d, list):
            return mklist([self.quote(x) for x in d])
        return Atom(repr(d))

    def ev(self, t, env):
        self.fuel -= 1
        if self.fuel <= 0:
            raise Diverges("evaluation does not terminate within the step bound")
        if isinstance(t, Sym):
            return self.lookup(t.name, env)
        if isinstance(t, Lit):
            return self.quote(t)
        if isinstance(t, (Dotted, Vec)):
            raise Unsupported("cannot evaluate %r" % (t,))
        if not isinstance(t, list):
            return t            # an already abstract value spliced into a call
        if not t:
            raise SchemeError("empty application")
        h = t[0]
        if isinstance(h, Sym) and not self.bound(h.name, env):
            if h.name == "quote":
                return self.quote(t[1])
            if h.name == "if":
                c = self.ev(t[1], env)
                if c is not False:
                    return self.ev(t[2], env)
                return self.ev(t[3], env) if len(t) > 3 else UNSPEC
            if h.name == "lambda":
                fm = library.formals_of(t[1])
                return Closure(list(fm[0]), fm[1], list(t[2:]), env)
            if h.name == "set!":
                v = self.ev(t[2], env)
                e = env
                while e is not None:
                    if t[1].name in e[0]:
                        e[0][t[1].name] = v
                        return UNSPEC
                    e = e[1]
                raise SchemeError("set! of an unbound variable")
            if h.name == "define":
                # an internal definition: bound in the frame of the procedure being run, when the definition is reached
                if env is None:
                    raise Unsupported("a definition outside a procedure body")
                tg = t[1]
                if isinstance(tg, Sym):
                    name, val = tg.name, (self.ev(t[2], env) if len(t) > 2 else UNSPEC)
                else:
                    name = tg[0].name if isinstance(tg, list) else tg.items[0].name
                    fm = library.formals_of(list(tg[1:]) if isinstance(tg, list) else Dotted(tg.items[1:], tg.tail))
                    val = Closure(list(fm[0]), fm[1], list(t[2:]), env, name)
                if isinstance(val, Closure) and val.name is None:
                    val.name = name
                env[0][name] = val
                return UNSPEC
        f = self.ev(h, env)
        args = [self.ev(a, env) for a in t[1:]]          # operands left to right (C01-once decides this for the interpreter)
        return self.apply(f, args)

    def bound(self, name, env):
        e = env
        while e is not None:
            if name in e[0]:
                return True
            e = e[1]
        return name in self.w.genv and name not in ("if", "quote", "lambda", "set!", "define")

    def apply(self, f, args):
        self.fuel -= 1
        if self.fuel <= 0:
            raise Diverges("evaluation does not terminate within the step bound")
        if isinstance(f, OpaqueProc):
            f.k += 1
            r = False if f.k in f.falsy else Atom("%s#%d" % (f.tag, f.k))
            self.trace.append(("call", f.tag, tuple(args), r))
            return r
        if isinstance(f, Native):
            return f.fn(self, args)
        if isinstance(f, Closure):
            if len(args) < len(f.fixed) or (f.rest is None and len(args) != len(f.fixed)):
                raise SchemeError("%r: wrong number of arguments (%d)" % (f, len(args)))
            frame = dict(zip(f.fixed, args))
            if f.rest is not None:
                frame[f.rest] = mklist(args[len(f.fixed):])
            env = (frame, f.env)
            r = UNSPEC
            for b in f.body:
                r = self.ev(b, env)
            return r
        raise SchemeError("%s is not a procedure" % show(f))
