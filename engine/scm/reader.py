"""An independent reader for the R7RS datum syntax subset used by the bundled Scheme sources
(written from R7RS 7.1; it does not call the Rust lexer).

Data model:  Sym(name)   Lit(kind, value)   list -> Python list   Dotted(items, tail)   Vec(items)
Every datum carries .pos = (line, col) where available."""


class Sym:
    __slots__ = ("name", "pos")

    def __init__(self, name, pos=None):
        self.name = name
        self.pos = pos

    def __repr__(self):
        return self.name

    def __eq__(self, o):
        return isinstance(o, Sym) and o.name == self.name

    def __hash__(self):
        return hash(("sym", self.name))


class Lit:
    __slots__ = ("kind", "value", "pos")

    def __init__(self, kind, value, pos=None):
        self.kind = kind
        self.value = value
        self.pos = pos

    def __repr__(self):
        if self.kind == "bool":
            return "#t" if self.value else "#f"
        if self.kind == "string":
            return '"%s"' % self.value
        if self.kind == "char":
            return "#\\%s" % self.value
        return str(self.value)

    def __eq__(self, o):
        return isinstance(o, Lit) and (o.kind, o.value) == (self.kind, self.value)

    def __hash__(self):
        return hash((self.kind, self.value))


class Dotted:
    def __init__(self, items, tail, pos=None):
        self.items = items
        self.tail = tail
        self.pos = pos

    def __repr__(self):
        return "(%s . %r)" % (" ".join(map(repr, self.items)), self.tail)


class Vec:
    def __init__(self, items, pos=None):
        self.items = items
        self.pos = pos

    def __repr__(self):
        return "#(%s)" % " ".join(map(repr, self.items))


class SList(list):
    """a proper list with a position"""
    pos = None

    def __repr__(self):
        return "(%s)" % " ".join(map(repr, self))


class ReadError(Exception):
    pass


DELIMS = set(" \t\n\r()\";|")


def read_all(text):
    pos = [0, 1, 1]  # index, line, col
    n = len(text)

    def peek():
        return text[pos[0]] if pos[0] < n else None

    def adv():
        c = text[pos[0]]
        pos[0] += 1
        if c == "\n":
            pos[1] += 1
            pos[2] = 1
        else:
            pos[2] += 1
        return c

    def skip():
        while True:
            c = peek()
            if c is None:
                return
            if c in " \t\n\r":
                adv()
            elif c == ";":
                while peek() is not None and peek() != "\n":
                    adv()
            elif c == "#" and text[pos[0]:pos[0] + 2] == "#|":
                depth = 0
                while pos[0] < n:
                    if text[pos[0]:pos[0] + 2] == "#|":
                        depth += 1
                        adv(); adv()
                    elif text[pos[0]:pos[0] + 2] == "|#":
                        depth -= 1
                        adv(); adv()
                        if depth == 0:
                            break
                    else:
                        adv()
            else:
                return

    def token():
        s = ""
        while peek() is not None and peek() not in DELIMS:
            s += adv()
        return s

    def datum():
        skip()
        c = peek()
        if c is None:
            raise ReadError("unexpected end of input at %d:%d" % (pos[1], pos[2]))
        p = (pos[1], pos[2])
        if c == "(":
            adv()
            items = []
            while True:
                skip()
                c2 = peek()
                if c2 is None:
                    raise ReadError("unterminated list opened at %d:%d" % p)
                if c2 == ")":
                    adv()
                    l = SList(items)
                    l.pos = p
                    return l
                if c2 == "." and (pos[0] + 1 >= n or text[pos[0] + 1] in DELIMS):
                    adv()
                    tail = datum()
                    skip()
                    if peek() != ")":
                        raise ReadError("bad dotted list at %d:%d" % p)
                    adv()
                    return Dotted(items, tail, p)
                items.append(datum())
        if c == ")":
            raise ReadError("unexpected ) at %d:%d" % p)
        if c == "'":
            adv()
            l = SList([Sym("quote", p), datum()])
            l.pos = p
            return l
        if c == "`" or c == ",":
            raise ReadError("quasiquote is not supported at %d:%d" % p)
        if c == '"':
            adv()
            s = ""
            while True:
                if peek() is None:
                    raise ReadError("unterminated string at %d:%d" % p)
                ch = adv()
                if ch == '"':
                    return Lit("string", s, p)
                if ch == "\\":
                    e = adv()
                    m = {"a": "\a", "b": "\b", "t": "\t", "n": "\n", "r": "\r", '"': '"', "\\": "\\", "|": "|"}
                    if e not in m:
                        raise ReadError("unknown escape \\%s at %d:%d" % (e, pos[1], pos[2]))
                    s += m[e]
                else:
                    s += ch
        if c == "|":
            adv()
            s = ""
            while peek() is not None and peek() != "|":
                s += adv()
            if peek() is None:
                raise ReadError("unterminated |identifier| at %d:%d" % p)
            adv()
            return Sym(s, p)
        if c == "#":
            if text[pos[0]:pos[0] + 2] == "#(":
                adv(); adv()
                items = []
                while True:
                    skip()
                    if peek() is None:
                        raise ReadError("unterminated vector at %d:%d" % p)
                    if peek() == ")":
                        adv()
                        return Vec(items, p)
                    items.append(datum())
            if text[pos[0]:pos[0] + 2] == "#\\":
                adv(); adv()
                ch = adv()
                rest = ""
                while peek() is not None and peek() not in DELIMS:
                    rest += adv()
                return Lit("char", ch + rest, p)
            t = token()
            if t in ("#t", "#true"):
                return Lit("bool", True, p)
            if t in ("#f", "#false"):
                return Lit("bool", False, p)
            raise ReadError("unsupported # syntax %r at %d:%d" % (t, p[0], p[1]))
        t = token()
        if t == "":
            raise ReadError("unexpected character %r at %d:%d" % (c, p[0], p[1]))
        # number?
        import re
        if re.fullmatch(r"[+-]?\d+", t):
            return Lit("int", int(t), p)
        if re.fullmatch(r"[+-]?\d+/\d+", t):
            return Lit("ratio", t, p)
        if re.fullmatch(r"[+-]?(\d+\.?\d*|\.\d+)(e[+-]?\d+)?", t) and any(ch.isdigit() for ch in t):
            return Lit("real", t, p)
        return Sym(t, p)

    out = []
    while True:
        skip()
        if peek() is None:
            return out
        out.append(datum())
