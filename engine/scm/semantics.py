"""Semantic oracle for the bundled derived forms.

For every rule of every derived form a set of *schematic uses* is generated from the rule's own pattern (every pattern
variable becomes an opaque operand; `x ...` is instantiated with 1 and 2 items).  The use is expanded to core forms with
an independent implementation of the expander's semantics class (first matching rule, one-or-more ellipsis,
non-hygienic), and the core term is evaluated *abstractly*: each operand has an abstract value in {#f, #t, some other
true value} and evaluating it is an event.  The result (value + event trace) is compared with the R7RS 4.2 definition of
the form evaluated on the same schematic use, for every assignment of abstract values.  No interpreter is run; the only
thing executed is this finite abstract evaluation of the expansion."""
import itertools
from .reader import Sym, Lit, Vec, SList, Dotted
from .macros import CORE


class Op:
    """opaque operand expression"""

    def __init__(self, name):
        self.name = name

    def __repr__(self):
        return "<" + self.name + ">"


class NoRule(Exception):
    pass


# --------------------------------------------------------------------------------------------- schematic uses


def schematic(rule, k, rest_shape=None, last_else=False):
    """one schematic use of `rule` with every ellipsis instantiated k times.
    rest_shape: for cond/case, the pattern variables that stand for *clauses* are instantiated with clause forms
    ((<t> <r>) for cond, ((<d>) <r>) for case; the last one optionally (else <r>))."""
    ops = []
    rest_vars = set(rest_shape or ())

    def inst(items, suffix):
        out = SList()
        i = 0
        while i < len(items):
            it = items[i]
            ell = i + 1 < len(items) and isinstance(items[i + 1], Sym) and items[i + 1].name == "..."
            reps = range(1, k + 1) if ell else [None]
            for rep in reps:
                sfx = suffix + ("" if rep is None else ".%d" % rep)
                if isinstance(it, Sym):
                    if it.name in rule.literals or it.name == rule.keyword and False:
                        out.append(Sym(it.name))
                    elif it.name == "_":
                        o = Op("_" + sfx)
                        ops.append(o)
                        out.append(o)
                    elif it.name in rest_vars:
                        is_last = (rep is None) or (rep == k)
                        r_ = Op(it.name + sfx + ".r")
                        r_.var = it.name
                        if last_else and is_last:
                            ops.append(r_)
                            out.append(SList([Sym("else"), r_]))
                        elif rule.keyword == "cond":
                            t_ = Op(it.name + sfx + ".t")
                            t_.var = it.name
                            ops.extend([t_, r_])
                            out.append(SList([t_, r_]))
                        else:
                            d_ = Op(it.name + sfx + ".d")
                            d_.var = it.name
                            d_.datum = True
                            ops.append(r_)
                            out.append(SList([SList([d_]), r_]))
                    else:
                        o = Op(it.name + sfx)
                        o.var = it.name
                        ops.append(o)
                        out.append(o)
                elif isinstance(it, list):
                    out.append(inst(list(it), sfx))
                else:
                    out.append(it)
            i += 2 if ell else 1
        return out
    use = SList([Sym(rule.keyword)] + list(inst(list(rule.pattern[1:]), "")))
    return use, ops


# --------------------------------------------------------------------------------------------- concrete expander


def cmatch(p, lits, e, b):
    if isinstance(p, Sym):
        if p.name == "_":
            return True
        if p.name in lits:
            return isinstance(e, Sym) and e.name == p.name
        b[p.name] = e
        return True
    if isinstance(p, list):
        if not isinstance(e, list):
            return False
        return cmatch_list(list(p), lits, list(e), b)
    if isinstance(p, Lit):
        return isinstance(e, Lit) and e == p
    return False


def cmatch_list(pats, lits, elems, b):
    has_ell = len(pats) >= 2 and isinstance(pats[-1], Sym) and pats[-1].name == "..."
    fixed = pats[:-2] if has_ell else pats
    if has_ell:
        if len(elems) < len(fixed) + 1:      # one or more
            return False
    elif len(elems) != len(fixed):
        return False
    for p, e in zip(fixed, elems):
        if not cmatch(p, lits, e, b):
            return False
    if has_ell:
        rep = pats[-2]
        subs = []
        for e in elems[len(fixed):]:
            sb = {}
            if not cmatch(rep, lits, e, sb):
                return False
            subs.append(sb)
        keys = set()
        for sb in subs:
            keys |= set(sb)
        for kx in keys:
            b[kx] = [sb.get(kx) for sb in subs]
    return True


def cinst(t, rule, b, depthvars):
    if isinstance(t, Sym):
        if t.name in rule.vars and t.name in b:
            return b[t.name]
        return Sym(t.name)
    if isinstance(t, list):
        out = SList()
        i = 0
        while i < len(t):
            it = t[i]
            ell = i + 1 < len(t) and isinstance(t[i + 1], Sym) and t[i + 1].name == "..."
            if ell:
                vs = [v for v in tvars(it, rule) if rule.vars.get(v, 0) > 0 and isinstance(b.get(v), list)]
                n = max((len(b[v]) for v in vs), default=0)
                for j in range(n):
                    bj = dict(b)
                    for v in vs:
                        bj[v] = b[v][j] if j < len(b[v]) else None
                    out.append(cinst(it, rule, bj, depthvars))
            else:
                out.append(cinst(it, rule, b, depthvars))
            i += 2 if ell else 1
        return out
    return t


def tvars(t, rule):
    out = set()
    if isinstance(t, Sym):
        if t.name in rule.vars:
            out.add(t.name)
    elif isinstance(t, list):
        for x in t:
            out |= tvars(x, rule)
    return out


def expand(mf, form, fuel=200):
    """expand to core forms (lambda / if / quote / application)"""
    if fuel <= 0:
        raise NoRule("expansion does not terminate")
    if not isinstance(form, list) or not form:
        return form
    head = form[0]
    if isinstance(head, Sym):
        if head.name == "quote":
            return form
        if head.name in mf.macros:
            for r in mf.macros[head.name]:
                b = {}
                if cmatch_list(list(r.pattern[1:]), r.literals, list(form[1:]), b):
                    return expand(mf, cinst(r.template, r, b, None), fuel - 1)
            raise NoRule("no rule of %s matches %r" % (head.name, form))
        if head.name == "lambda":
            return SList([head, form[1]] + [expand(mf, x, fuel - 1) for x in form[2:]])
    return SList([expand(mf, x, fuel - 1) for x in form])


# --------------------------------------------------------------------------------------------- abstract evaluation

F, T, U = "#f", "#t", "unspecified"


def truthy(v):
    return v != F


class Eval:
    def __init__(self, assign, member):
        self.assign = assign    # Op name -> F / T / ("V", name)
        self.member = member    # frozenset of (key op name) -> bool : does memv find the key in this clause's data?
        self.trace = []

    def ev(self, t, env, visible):
        if isinstance(t, Op):
            self.trace.append(("eval", t.name, tuple(sorted(visible))))
            return self.assign[t.name]
        if isinstance(t, Lit):
            if t.kind == "bool":
                return T if t.value else F
            return ("L", repr(t))
        if isinstance(t, Sym):
            if t.name in env:
                return env[t.name]
            return ("free", t.name)
        if not isinstance(t, list) or not t:
            return ("L", "()")
        h = t[0]
        if isinstance(h, Sym) and h.name not in env:
            if h.name == "quote":
                return ("Q", repr(t[1]))
            if h.name == "if":
                c = self.ev(t[1], env, visible)
                if truthy(c):
                    return self.ev(t[2], env, visible)
                if len(t) > 3:
                    return self.ev(t[3], env, visible)
                return U
            if h.name == "lambda":
                return ("closure", t, dict(env), frozenset(visible))
            if h.name == "not" and len(t) == 2:
                return T if not truthy(self.ev(t[1], env, visible)) else F
            if h.name == "null?" and len(t) == 2:
                v = self.ev(t[1], env, visible)
                return T if v == ("L", "()") or v == ("Q", "()") else F
            if h.name in ("memv", "memq", "member") and len(t) == 3:
                k = self.ev(t[1], env, visible)
                d = self.ev(t[2], env, visible)
                key = (repr(t[1]), d)
                hit = self.member.get(d, False)
                return ("memv-tail", d) if hit else F
        # application
        fv = self.ev(h, env, visible)
        args = [self.ev(a, env, visible) for a in t[1:]]
        if isinstance(fv, tuple) and fv and fv[0] == "closure":
            lam, cenv, cvis = fv[1], fv[2], fv[3]
            formals = lam[1] if isinstance(lam[1], list) else []
            nenv = dict(cenv)
            nvis = set(cvis)
            for fm, a in zip(formals, args):
                if isinstance(fm, Sym):
                    nenv[fm.name] = a
                elif isinstance(fm, Op):
                    nvis.add(fm.name)
            r = U
            for e in lam[2:]:
                r = self.ev(e, nenv, nvis)
            return r
        fname = fv[1] if isinstance(fv, tuple) and len(fv) > 1 else str(fv)
        self.trace.append(("apply", str(fname), tuple(str(a) for a in args)))
        return ("result-of", str(fname), tuple(str(a) for a in args))


# --------------------------------------------------------------------------------------------- R7RS 4.2 reference semantics


class Spec:
    """reference evaluation of a schematic use of a derived form (R7RS 4.2.1, 4.2.2, 4.2.3)"""

    def __init__(self, assign, member):
        self.assign = assign
        self.member = member
        self.trace = []

    def val(self, op, visible=()):
        if isinstance(op, list):
            e = Eval(self.assign, self.member)
            e.trace = self.trace
            return e.ev(op, {}, set(visible))
        if isinstance(op, Op):
            self.trace.append(("eval", op.name, tuple(sorted(visible))))
            return self.assign[op.name]
        if isinstance(op, Lit):
            if op.kind == "bool":
                return T if op.value else F
            return ("L", repr(op))
        return ("free", repr(op))

    def seq(self, items, visible=()):
        r = U
        for x in items:
            r = self.val(x, visible)
        return r

    def run(self, use):
        kw = use[0].name
        a = list(use[1:])
        if kw == "begin":
            return self.seq(a)
        if kw == "and":
            if not a:
                return T
            r = T
            for x in a:
                r = self.val(x)
                if not truthy(r):
                    return r
            return r
        if kw == "or":
            r = F
            for x in a:
                r = self.val(x)
                if truthy(r):
                    return r
            return r
        if kw == "when":
            if truthy(self.val(a[0])):
                return self.seq(a[1:])
            return U
        if kw == "unless":
            if not truthy(self.val(a[0])):
                return self.seq(a[1:])
            return U
        if kw == "let":
            binds = a[0]
            names = [b[0] for b in binds]
            for b in binds:
                self.val(b[1], ())
            vis = tuple(n.name for n in names if isinstance(n, Op))
            return self.seq(a[1:], vis)
        if kw == "let*":
            vis = []
            for b in a[0]:
                self.val(b[1], tuple(vis))
                if isinstance(b[0], Op):
                    vis.append(b[0].name)
            return self.seq(a[1:], tuple(vis))
        if kw == "cond":
            for cl in a:
                if isinstance(cl[0], Sym) and cl[0].name == "else":
                    return self.seq(cl[1:])
                tv = self.val(cl[0])
                if truthy(tv):
                    if len(cl) >= 3 and isinstance(cl[1], Sym) and cl[1].name == "=>":
                        fv = self.val(cl[2])
                        self.trace.append(("apply", str(fv[1] if isinstance(fv, tuple) and len(fv) > 1 else fv), (str(tv),)))
                        return ("result-of", str(fv[1] if isinstance(fv, tuple) and len(fv) > 1 else fv), (str(tv),))
                    if len(cl) == 1:
                        return tv
                    return self.seq(cl[1:])
            return U
        if kw == "case":
            kv = self.val(a[0])
            for cl in a[1:]:
                sel = False
                if isinstance(cl[0], Sym) and cl[0].name == "else":
                    sel = True
                else:
                    d = ("Q", repr(cl[0]))
                    sel = self.member.get(d, False)
                if sel:
                    if len(cl) >= 3 and isinstance(cl[1], Sym) and cl[1].name == "=>":
                        fv = self.val(cl[2])
                        self.trace.append(("apply", str(fv[1] if isinstance(fv, tuple) and len(fv) > 1 else fv), (str(kv),)))
                        return ("result-of", str(fv[1] if isinstance(fv, tuple) and len(fv) > 1 else fv), (str(kv),))
                    return self.seq(cl[1:])
            return U
        raise NoRule("no reference semantics for " + kw)


def data_lists(use):
    """quoted data lists of the case clauses of a schematic use"""
    out = []
    if use[0].name == "case":
        for cl in use[2:]:
            if isinstance(cl, list) and cl and isinstance(cl[0], list):
                out.append(("Q", repr(cl[0])))
    return out


def compare_rule(mf, rule, roles=None, atomic=(), ks=(1, 2), max_assign=3000):
    """-> (disagreements, number of cases).  A disagreement is (use, assignment, expected, got)."""
    bad = []
    n = 0
    roles = roles or {}
    rest = [v for v, r in roles.items() if r == "REST"] if rule.keyword in ("cond", "case") else []
    variants = [(False,)] + ([(True,)] if rest else [])
    for k in ks:
        for (last_else,) in variants:
            use, ops = schematic(rule, k, rest, last_else)
            try:
                core = expand(mf, use)
            except NoRule as e:
                bad.append((use, None, "the use must expand", str(e)))
                continue
            names = [o.name for o in ops if not getattr(o, "datum", False)]
            quoted = {o.name for o in ops if getattr(o, "datum", False)}
            dls = data_lists(use)
            dom = [(F, T, ("V", nm)) for nm in names]
            total = 1
            for d in dom:
                total *= len(d)
            if total * (2 ** len(dls)) > max_assign:
                dom = [(F, ("V", nm)) for nm in names]
            atom_names = {o.name for o in ops if getattr(o, "var", None) in atomic}
            for vals in itertools.product(*dom):
                assign = dict(zip(names, vals))
                for q in quoted:
                    assign[q] = ("V", q)
                for mem in itertools.product([False, True], repeat=len(dls)):
                    member = dict(zip(dls, mem))
                    n += 1
                    sp = Spec(assign, member)
                    try:
                        want = sp.run(use)
                    except NoRule as e:
                        bad.append((use, None, "reference semantics", str(e)))
                        break
                    evl = Eval(assign, member)
                    try:
                        got = evl.ev(core, {}, set())
                    except RecursionError:
                        got = "diverges"
                    tw, tg = filt(sp.trace, atom_names), filt(evl.trace, atom_names)
                    value_ok = (want == U) or (str(want) == str(got))
                    if not value_ok or tw != tg:
                        bad.append((use, assign, (want, tw), (got, tg)))
                        if len(bad) > 3:
                            return bad, n
    return bad, n


def filt(trace, atomic=()):
    """drop evaluations of atomic operands (a variable or literal: no effect, order and multiplicity are unobservable)"""
    return [e for e in trace if not (e[0] == "eval" and e[1] in atomic)]
