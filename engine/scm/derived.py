"""Engine C: analysis of the bundled derived forms (src/parser/grammar.sld) by abstract expansion.

For every rule of every derived form the template is expanded symbolically — pattern variables stay opaque leaves,
uses of *other* derived forms are expanded with the bundled rules themselves, recursive uses are kept as opaque
nodes (co-induction) — down to the core forms lambda / if / quote / application.  On that skeleton each occurrence
of a pattern variable gets: its control path (which arm of which `if`), the template-introduced binders in whose
scope it sits, whether it is evaluated or quoted, and whether it is in tail position (R7RS 3.5)."""
import os
from .reader import Sym, Lit, Vec, SList
from .macros import MacroFile, PVar, Seq, to_raw, expand_once, CORE

REPO = os.environ.get("VERIF_REPO", "/repo")
GRAMMAR = "src/parser/grammar.sld"
NINE = ["begin", "let", "let*", "cond", "case", "and", "or", "when", "unless"]


class Occ:
    def __init__(self, var, kind, cond, binders, tail, where, seq, pvb=()):
        self.var = var
        self.kind = kind          # eval | quoted | binder | rec-arg | operator
        self.cond = cond          # tuple of (if-id, 'then'|'else')
        self.binders = binders    # template-introduced binders in scope: tuple of names
        self.tail = tail
        self.where = where        # description
        self.seq = seq            # inside `x ...`
        self.pv_binders = pvb     # pattern variables used as lambda formals enclosing this occurrence


class Skel:
    """walker state for one rule"""

    def __init__(self, mf, rule):
        self.mf = mf
        self.rule = rule
        self.occs = []
        self.ifs = {}             # id -> (test raw, cond)
        self.free = []            # (symbol name, position kind) free template symbols in evaluated position
        self.tbinders = []        # template-introduced binder names (with the formals list they sit in)
        self.unexpanded = []      # derived-form uses kept opaque (keyword, raw)
        self.consts = []          # (value, cond, tail)
        self.nid = 0

    def walk(self, t, cond=(), binders=(), tail=True, bound=None, stack=(), seq=False, pvb=()):
        bound = bound or {}
        if isinstance(t, Seq):
            return self.walk(t.item, cond, binders, tail, bound, stack, True, pvb)
        if isinstance(t, PVar):
            self.occs.append(Occ(t.name, "eval", cond, binders, tail, "expr", seq, pvb))
            return
        if isinstance(t, Sym):
            if t.name not in binders and t.name not in bound:
                self.free.append((t.name, "variable", cond))
            return
        if isinstance(t, Lit):
            self.consts.append((t, cond, tail))
            return
        if isinstance(t, Vec):
            return
        if not isinstance(t, list) or not t:
            return
        head = t[0]
        if isinstance(head, Sym) and head.name not in binders:
            k = head.name
            if k == "quote":
                self.quoted(t[1] if len(t) > 1 else None, cond, binders)
                return
            if k == "if":
                self.nid += 1
                i = self.nid
                self.ifs[i] = (t[1] if len(t) > 1 else None, cond, dict(bound))
                if len(t) > 1:
                    self.walk(t[1], cond, binders, False, bound, stack, False, pvb)
                if len(t) > 2:
                    self.walk(t[2], cond + ((i, "then"),), binders, tail, bound, stack, False, pvb)
                if len(t) > 3:
                    self.walk(t[3], cond + ((i, "else"),), binders, tail, bound, stack, False, pvb)
                else:
                    self.consts.append(("unspecified", cond + ((i, "else"),), tail))
                return
            if k == "lambda":
                # a lambda *value* (not applied): its body is not evaluated here
                self.lambda_(t, cond, binders, False, bound, stack, applied=False, pvb=pvb)
                return
            if k in ("set!", "define"):
                for x in t[2:]:
                    self.walk(x, cond, binders, False, bound, stack, False, pvb)
                return
            if k in self.mf.macros:
                ex = expand_once(self.mf, t, stack + (self.rule.keyword,)) if k != self.rule.keyword else None
                if ex is not None:
                    return self.walk(ex, cond, binders, tail, bound, stack + (k,), seq, pvb)
                # opaque (recursive / undetermined) use of a derived form
                self.unexpanded.append((k, t))
                for j, a in enumerate(t[1:]):
                    self.rec_arg(a, k, j, cond, binders, tail, pvb)
                return
        # application
        if isinstance(head, list) and head and head[0] == Sym("lambda") and "lambda" not in binders:
            # ((lambda formals body...) args...): args first, then the body in the same tail context
            for a in t[1:]:
                self.walk(a, cond, binders, False, bound, stack, False, pvb)
            self.lambda_(head, cond, binders, tail, bound, stack, applied=True, args=t[1:], pvb=pvb)
            return
        if isinstance(head, PVar):
            self.occs.append(Occ(head.name, "operator", cond, binders, tail, "operator of a call", seq, pvb))
        elif isinstance(head, Sym):
            if head.name not in binders and head.name not in bound:
                self.free.append((head.name, "operator", cond))
        else:
            self.walk(head, cond, binders, False, bound, stack, False, pvb)
        for a in t[1:]:
            self.walk(a, cond, binders, False, bound, stack, False, pvb)

    def lambda_(self, lam, cond, binders, tail, bound, stack, applied, args=(), pvb=()):
        formals = lam[1] if len(lam) > 1 else SList()
        names = []
        pvnames = []
        fl = formals if isinstance(formals, list) else [formals]
        for x in fl:
            it = x.item if isinstance(x, Seq) else x
            if isinstance(it, Sym):
                names.append(it.name)
                self.tbinders.append((it.name, cond))
            elif isinstance(it, PVar):
                self.occs.append(Occ(it.name, "binder", cond, binders, False, "lambda formal", isinstance(x, Seq), pvb))
                pvnames.append(it.name)
        nb = dict(bound)
        if applied:
            flat = [x for x in fl]
            for x, a in zip(flat, args):
                it = x.item if isinstance(x, Seq) else x
                if isinstance(it, Sym):
                    nb[it.name] = a
        body = lam[2:]
        inner = binders + tuple(names)
        ipvb = pvb + tuple(pvnames)
        # an internal definition whose value is a lambda, called by the last body form in tail position — a loop procedure, as
        # in the expansion of a named let: the last form of THAT lambda's body is in tail position too (it is the tail of a
        # procedure entered by a tail call)
        loop_defs = set()
        if applied and tail and body:
            last_e = body[-1]
            if isinstance(last_e, list) and last_e and isinstance(last_e[0], (Sym, PVar)):
                loop_defs.add(last_e[0].name)
        for j, e in enumerate(body):
            last = j == len(body) - 1
            if isinstance(e, list) and len(e) == 3 and e[0] == Sym("define") and isinstance(e[1], (Sym, PVar)) and e[1].name in loop_defs \
                    and isinstance(e[2], list) and e[2] and e[2][0] == Sym("lambda") and "lambda" not in binders and "define" not in binders:
                if isinstance(e[1], PVar):
                    self.occs.append(Occ(e[1].name, "binder", cond, binders, False, "internal definition", False, pvb))
                self.lambda_(e[2], cond, inner, True, nb, stack, applied=True, args=(), pvb=ipvb)
                continue
            if isinstance(e, Seq):
                # `body ...`: the last repetition is in tail position when this is the last body element
                self.walk(e.item, cond, inner, (tail and last) if applied else False, nb, stack, True, ipvb)
                if not (applied and tail and last):
                    pass
            else:
                self.walk(e, cond, inner, (tail and last) if applied else False, nb, stack, False, ipvb)

    def quoted(self, d, cond, binders):
        if isinstance(d, Seq):
            d = d.item
        if isinstance(d, PVar):
            self.occs.append(Occ(d.name, "quoted", cond, binders, False, "quoted datum", False))
        elif isinstance(d, list):
            for x in d:
                self.quoted(x, cond, binders)

    def rec_arg(self, a, k, j, cond, binders, tail, pvb=()):
        seq = isinstance(a, Seq)
        it = a.item if seq else a
        if isinstance(it, PVar):
            self.occs.append(Occ(it.name, "rec-arg", cond, binders, tail, "%s#%d" % (k, j), seq, pvb))
        elif isinstance(it, list):
            for x in it:
                self.rec_arg(x, k, j, cond, binders, tail, pvb)


# ============================================================================================= roles


def roles(rule):
    """Assign R7RS roles to the pattern variables of a rule from the shape of its pattern.
    Roles: TEST, RESULT, RECEIVER, REST, KEY, DATA, NAME, INIT, BODY."""
    kw = rule.keyword
    p = list(rule.pattern[1:])
    lits = rule.literals
    r = {}

    def names(x):
        out = []
        if isinstance(x, Sym) and x.name in rule.vars:
            out.append(x.name)
        elif isinstance(x, list):
            for y in x:
                out += names(y)
        return out

    def clause(c):
        """(test result ...) | (test => receiver) | (else result ...) | ((data ...) result ...)"""
        if not isinstance(c, list) or not c:
            return
        first = c[0]
        rest = c[1:]
        if kw == "case" and isinstance(first, list):
            for n in names(first):
                r[n] = "DATA"
        elif isinstance(first, Sym) and first.name in rule.vars:
            r[first.name] = "TEST"
        arrow = any(isinstance(x, Sym) and x.name == "=>" and "=>" in lits for x in rest)
        for x in rest:
            for n in names(x):
                r[n] = "RECEIVER" if arrow else "RESULT"

    if kw in ("cond",):
        if p:
            clause(p[0])
        for x in p[1:]:
            for n in names(x):
                r[n] = "REST"
    elif kw == "case":
        if p:
            k = p[0]
            for n in names(k):
                r[n] = "KEY"
        if len(p) > 1:
            if isinstance(p[1], list):
                clause(p[1])
            else:
                for n in names(p[1]):
                    r[n] = "REST"
        for x in p[2:]:
            for n in names(x):
                r[n] = "REST"
    elif kw in ("and", "or"):
        if p:
            for n in names(p[0]):
                r[n] = "TEST"
        for x in p[1:]:
            for n in names(x):
                r[n] = "REST"
    elif kw in ("when", "unless"):
        if p:
            for n in names(p[0]):
                r[n] = "TEST"
        for x in p[1:]:
            for n in names(x):
                r[n] = "RESULT"
    elif kw in ("let", "let*"):
        if p and isinstance(p[0], list):
            first = True
            for b in p[0]:
                if isinstance(b, list) and len(b) >= 2:
                    for n in names(b[0]):
                        r[n] = "NAME" if first else "REST-NAME"
                    for n in names(b[1]):
                        r[n] = "INIT" if first else "REST-INIT"
                    if kw == "let*":
                        first = False
        for x in p[1:]:
            for n in names(x):
                r[n] = "BODY"
    elif kw == "begin":
        for x in p:
            for n in names(x):
                r[n] = "BODY"
    return r


def load(repo=None):
    repo = repo or os.environ.get("VERIF_REPO", "/repo")
    path = os.path.join(repo, GRAMMAR)
    with open(path) as fh:
        text = fh.read()
    return MacroFile(text, path)


def rid(rule):
    """stable identifier of a rule: its pattern text (not its position)"""
    return repr(rule.pattern).replace(" ", "_")


def analyse(mf):
    out = {}
    for kw, rules in mf.macros.items():
        for r in rules:
            sk = Skel(mf, r)
            sk.walk(to_raw(r.template, r))
            out[(kw, r.index)] = (r, sk, roles(r))
    return out


# ============================================================================================= rules for C05 / C02


def test_of(sk, ifid, rolemap):
    """What the test of an `if` is, in terms of roles: (role or None, negated?, via_temp?)"""
    t, cond, bound = sk.ifs[ifid]
    neg = False
    via = None
    for _ in range(4):
        if isinstance(t, PVar):
            return rolemap.get(t.name), neg, via, t.name
        if isinstance(t, Sym) and t.name in bound:
            via = t.name
            t = bound[t.name]
            continue
        if isinstance(t, list) and len(t) == 2 and t[0] == Sym("not"):
            neg = not neg
            t = t[1]
            continue
        if isinstance(t, list) and len(t) == 2 and t[0] == Sym("null?"):
            neg = not neg
            t = t[1]
            continue
        if isinstance(t, list) and len(t) == 3 and isinstance(t[0], Sym) and t[0].name in ("memv", "memq", "member"):
            k = t[1]
            return ("KEY-IN-DATA" if isinstance(k, PVar) and rolemap.get(k.name) == "KEY" else None), neg, via, getattr(k, "name", None)
        break
    return None, neg, via, None


def c05_rules(ctx):
    mf = load()
    an = analyse(mf)
    W = lambda kw, idx: "%s:%s rule %d of %s" % (GRAMMAR, "", idx, kw)

    # ------------------------------------------------------------------ C05-wellformed
    ctx.rule("C05-wellformed", "all nine derived forms are defined, inside the expander's supported class")
    for kw, msg in mf.wellformed():
        ctx.report("C05-wellformed", "%s/%s" % (kw, msg.split(":")[0].replace(" ", "-")), "%s: %s" % (kw, msg), GRAMMAR)
    for kw in NINE:
        n = len(mf.macros.get(kw, []))
        ctx.inst("C05-wellformed", kw, {"rules": n})
        if n == 0:
            ctx.report("C05-wellformed", kw + "/missing", "derived form %s is not defined by %s (a reader/parse error in the file silently "
                       "drops definitions: create_syntax_binding discards errors)" % (kw, GRAMMAR), GRAMMAR)
    extra = [k for k in mf.macros if k not in NINE]
    if extra:
        ctx.note("additional bundled macros: %s" % extra)

    # ------------------------------------------------------------------ C05-capture
    ctx.rule("C05-capture", "templates bind exactly the specified variables: no template-introduced binder captures user code; "
                            "every free identifier a template introduces is a core or derived-form keyword")
    ctx.rule("C05-once", "each sub-form is evaluated at most once on every control path")
    ctx.rule("C05-scope", "let evaluates all initialisers outside the scope of its variables; let* scopes left to right")
    ctx.rule("C05-select", "only the selected clause runs: results / remaining clauses sit in opposite arms of an `if` on the test")
    known_kw = set(mf.macros) | CORE
    for (kw, idx), (r, sk, rm) in sorted(an.items()):
        tb = {n for n, _ in sk.tbinders}
        # (a) capture: a pattern variable evaluated inside the scope of a template-introduced binder
        captured = {}
        for o in sk.occs:
            if o.kind in ("eval", "operator", "rec-arg"):
                for b in o.binders:
                    if b in tb:
                        captured.setdefault(b, set()).add(o.var)
        ctx.inst("C05-capture", "%s#%d/binders" % (kw, idx), {"template_binders": sorted(tb), "capture": {k: sorted(v) for k, v in captured.items()}})
        for b, vs in sorted(captured.items()):
            ctx.report("C05-capture", "%s/binder/%s" % (kw, b),
                       "rule %d of %s introduces the binder `%s` and expands the user's sub-form(s) %s inside its scope; the expander is "
                       "not hygienic, so a user variable named `%s` is captured" % (idx, kw, b, sorted(vs), b), GRAMMAR)
        # (b) free identifiers introduced by the template (resolved in the user's scope)
        frees = sorted({n for n, k, c in sk.free if n not in known_kw and n not in tb})
        ctx.inst("C05-capture", "%s#%d/free" % (kw, idx), frees)
        for n in frees:
            ctx.report("C05-capture", "%s/free/%s" % (kw, n),
                       "rule %d of %s refers to `%s`, which is not a keyword: it is looked up in the *user's* environment (unbound "
                       "without (scheme base), and wrong if the user rebinds it)" % (idx, kw, n), GRAMMAR)

        # ------------------------------------------------------------------ C05-once
        atomic = set()
        if kw == "case" and idx > 0:
            first = mf.macros["case"][0].pattern
            if len(first) > 1 and isinstance(first[1], list) and len(first[1]) == 2 and isinstance(first[1][1], Sym) and first[1][1].name == "...":
                atomic |= {v for v, role in rm.items() if role == "KEY"}   # compound keys were bound to a temporary by rule 0
        for v in sorted(r.vars):
            evs = [o for o in sk.occs if o.var == v and o.kind in ("eval", "operator", "rec-arg")]
            # maximal number of occurrences on one control path
            worst = max_on_path(evs)
            ctx.inst("C05-once", "%s#%d/%s" % (kw, idx, v), {"max_evaluations_on_a_path": worst, "atomic": v in atomic})
            if worst > 1 and v not in atomic:
                ctx.report("C05-once", "%s/%s/%s" % (kw, rid(r), v), "rule %d of %s evaluates the sub-form `%s` %d times on one control path"
                           % (idx, kw, v, worst), GRAMMAR)

        # ------------------------------------------------------------------ C05-scope
        if kw in ("let", "let*"):
            names = [v for v, role in rm.items() if role == "NAME"]
            for o in sk.occs:
                role = rm.get(o.var)
                if role == "INIT" and o.kind == "eval":
                    # must not sit inside a lambda whose formals are the NAME pattern variables
                    inside = binder_vars_in_scope(sk, o)
                    ctx.inst("C05-scope", "%s#%d/%s" % (kw, idx, o.var), {"evaluated_inside_scope_of": sorted(inside)})
                    if inside & set(names):
                        ctx.report("C05-scope", "%s/%s/%s" % (kw, rid(r), o.var), "the initialiser `%s` is evaluated inside the scope of the "
                                   "variable(s) %s it initialises" % (o.var, sorted(inside & set(names))), GRAMMAR)
                if role == "BODY" and o.kind in ("eval", "rec-arg"):
                    inside = binder_vars_in_scope(sk, o)
                    if names and not set(names) <= inside and o.kind == "eval":
                        ctx.report("C05-scope", "%s/%s/body" % (kw, rid(r)), "the body is not in the scope of the bound variable(s) %s" % names, GRAMMAR)
                if kw == "let*" and role in ("REST-INIT",) and o.kind in ("rec-arg", "eval"):
                    inside = binder_vars_in_scope(sk, o)
                    if names and not set(names) <= inside:
                        ctx.report("C05-scope", "let*/%s/%s" % (rid(r), o.var), "a later initialiser is not in the scope of the earlier "
                                   "variable(s) %s" % names, GRAMMAR)

        # ------------------------------------------------------------------ C05-select
        if kw in ("cond", "case", "and", "or", "when", "unless"):
            select_rule(ctx, kw, idx, r, sk, rm)
    for rname, fl in (("C05-capture", 18), ("C05-once", 20)):
        ctx.floor(rname, fl)

    # ------------------------------------------------------------------ constants: (and) => #t, (or) => #f
    for kw, want in (("and", True), ("or", False)):
        rs = mf.macros.get(kw, [])
        ok = any(len(r.pattern) == 1 and isinstance(r.template, Lit) and r.template.kind == "bool" and r.template.value is want for r in rs)
        ctx.inst("C05-select", "(%s)" % kw, {"value": want, "present": ok})
        if not ok:
            ctx.report("C05-select", "%s/empty" % kw, "(%s) does not expand to %s" % (kw, "#t" if want else "#f"), GRAMMAR)
        one = any(len(r.pattern) == 2 and isinstance(r.pattern[1], Sym) and isinstance(r.template, Sym) and r.template.name == r.pattern[1].name for r in rs)
        if not one:
            ctx.report("C05-select", "%s/single" % kw, "(%s test) does not expand to test itself (tail position / value lost)" % kw, GRAMMAR)
    return mf, an


def binder_vars_in_scope(sk, o):
    """pattern variables used as lambda formals whose lambda encloses occurrence o (approximated through the control path and
    the recorded binder occurrences: a binder occurrence with the same cond prefix that was emitted before)."""
    # pattern-variable formals are recorded as Occ(kind='binder'); the enclosing relation is kept in o.binders only for template
    # symbols, so compute it directly from a second structural pass (stored on the skeleton when available)
    return set(getattr(o, "pv_binders", ()))


def max_on_path(evs):
    """maximum number of occurrences that lie on one control path (arms of the same `if` are alternatives)."""
    if not evs:
        return 0
    best = 0
    n = len(evs)
    # two occurrences are compatible unless their conds contain the same if-id with different arms
    def compatible(a, b):
        da, db = dict(a.cond), dict(b.cond)
        return all(da[k] == db[k] for k in da if k in db)
    # small n: greedy clique by brute force
    from itertools import combinations
    for k in range(n, 0, -1):
        for comb in combinations(range(n), k):
            if all(compatible(evs[i], evs[j]) for i in comb for j in comb if i < j):
                # an occurrence inside `x ...` counts once per item, that is fine: one evaluation per item
                return k
    return best


def select_rule(ctx, kw, idx, r, sk, rm):
    tests = {i: test_of(sk, i, rm) for i in sk.ifs}
    want_arm = {
        # role -> required arm of the `if` whose test is the clause's test
        "cond": {"RESULT": "then", "RECEIVER": "then", "REST": "else"},
        "case": {"RESULT": "then", "RECEIVER": "then", "REST": "else"},
        "and": {"REST": "then"},
        "or": {"REST": "else"},
        "when": {"RESULT": "then"},
        "unless": {"RESULT": "else"},
    }[kw]
    has_test = any(role in ("TEST",) for role in rm.values()) or (kw == "case" and any(role == "DATA" for role in rm.values()))
    for o in sk.occs:
        role = rm.get(o.var)
        if role not in want_arm or o.kind not in ("eval", "operator", "rec-arg"):
            continue
        if not has_test:
            continue  # e.g. (cond (else result ...)): nothing to select
        arm = None
        for (i, br) in o.cond:
            trole, neg, via, var = tests[i]
            if trole in ("TEST", "KEY-IN-DATA"):
                arm = br if not neg else ("else" if br == "then" else "then")
        ctx.inst("C05-select", "%s#%d/%s(%s)" % (kw, idx, o.var, role), {"arm_of_test": arm, "want": want_arm[role]})
        if arm != want_arm[role]:
            ctx.report("C05-select", "%s/%s/%s" % (kw, rid(r), o.var),
                       "in rule %d of %s the %s sub-form `%s` %s, expected the %s arm" % (
                           idx, kw, role, o.var, ("sits in the %s arm of the test" % arm) if arm else "is not guarded by the clause's test", want_arm[role]), GRAMMAR)
    # the test itself: evaluated unconditionally, exactly once
    for v, role in rm.items():
        if role == "TEST":
            evs = [o for o in sk.occs if o.var == v and o.kind in ("eval", "operator")]
            uncond = [o for o in evs if not o.cond]
            ctx.inst("C05-select", "%s#%d/%s(TEST)" % (kw, idx, v), {"unconditional_evaluations": len(uncond), "all": len(evs)})
            if len(uncond) != 1:
                ctx.report("C05-select", "%s/%s/%s/test" % (kw, rid(r), v), "the test `%s` is evaluated unconditionally %d time(s), expected once" % (v, len(uncond)), GRAMMAR)
    # the deciding value: `or` returns the test's value (then-arm is the temporary), `and` returns #f in the else arm
    if kw == "or" and any(role == "REST" for role in rm.values()):
        ok = False
        for i, (t, cond, bound) in sk.ifs.items():
            trole, neg, via, var = tests[i]
            if trole == "TEST" and not neg:
                ok = True
        if not ok:
            ctx.report("C05-select", "or/%s/deciding" % rid(r), "`or` does not branch on the value of its first test", GRAMMAR)


def c05_receiver_and_value(ctx, mf, an):
    """`=>` clauses apply the receiver to the test's value; cond (test) returns the test's value."""
    for (kw, idx), (r, sk, rm) in sorted(an.items()):
        recv = [v for v, role in rm.items() if role == "RECEIVER"]
        for v in recv:
            ops = [o for o in sk.occs if o.var == v and o.kind == "operator"]
            ctx.inst("C05-select", "%s#%d/%s(RECEIVER)" % (kw, idx, v), {"applied": len(ops)})
            if len(ops) != 1:
                ctx.report("C05-select", "%s/%s/%s/receiver" % (kw, rid(r), v), "the receiver of `=>` is not applied exactly once", GRAMMAR)


# ============================================================================================= C02-derived-tail


def last_of_role(rule, rm, role):
    """the pattern variable of `role` that comes last in the pattern (textual order)"""
    order = []

    def walk(x):
        if isinstance(x, Sym):
            if rm.get(x.name) == role:
                order.append(x.name)
        elif isinstance(x, list):
            for y in x:
                walk(y)
    walk(rule.pattern[1:])
    return order[-1] if order else None


def tail_rule(ctx):
    """C02-derived-tail: the designated tail sub-forms stay in tail position of the expansion."""
    ctx.rule("C02-derived-tail", "derived forms keep their R7RS tail sub-form in tail position (last body form of an applied lambda "
                                 "in tail position, both arms of a tail `if`)")
    mf = load()
    an = analyse(mf)
    n = 0
    for (kw, idx), (r, sk, rm) in sorted(an.items()):
        for v, role in sorted(rm.items()):
            if role not in ("BODY", "RESULT", "RECEIVER", "REST", "REST-NAME", "REST-INIT"):
                continue
            if role in ("REST-NAME", "REST-INIT"):
                continue
            occs = [o for o in sk.occs if o.var == v and o.kind in ("eval", "operator", "rec-arg")]
            if not occs:
                continue
            if role in ("BODY", "RESULT") and v != last_of_role(r, rm, role):
                continue   # only the last form of a body / result sequence is a tail form (R7RS 3.5)
            n += 1
            # BODY/RESULT are sequences: the *last* item must be in tail position, i.e. the occurrence is the last body form
            bad = [o for o in occs if not o.tail]
            if kw in ("and", "or") and role == "REST":
                pass
            ctx.inst("C02-derived-tail", "%s#%d/%s(%s)" % (kw, idx, v, role), {"occurrences": len(occs), "non_tail": len(bad)})
            if bad:
                ctx.report("C02-derived-tail", "%s/%s/%s" % (kw, rid(r), v),
                           "in rule %d of %s the %s sub-form `%s` is expanded into a non-tail position (%s): a loop through this form "
                           "grows the stack" % (idx, kw, role, v, bad[0].where), GRAMMAR)
        # single-test rules `(and test)`, `(or test)`, `(cond (test))`: the test is the tail expression
        if len(r.pattern) == 2 and isinstance(r.template, Sym) and kw in ("and", "or"):
            pass
    if n < 14:
        ctx.report("C02-derived-tail", "floor", "only %d tail obligations found (expected >= 14)" % n, GRAMMAR)
    # a tail sequence `x ...` must be the *last* form of its body: checked through Occ.tail (the walker marks the last body element)
    # the deciding test of `and`/`or` single rules
    for kw in ("and", "or"):
        for r in mf.macros.get(kw, []):
            if len(r.pattern) == 3 and isinstance(r.pattern[2], Sym) and r.pattern[2].name == "...":
                continue
    return mf
