"""C05-coverage: every clause shape of R7RS 4.2.1-4.2.3 for the nine derived forms is accepted by some bundled rule (under the
expander's one-or-more ellipsis semantics) and its expansion agrees with the reference semantics."""
import itertools
from .reader import read_all, Sym, SList, Lit
from . import semantics
from .semantics import Op, NoRule, Spec, Eval, F, T, U

# schematic uses written with operand names; identifiers starting with `%` are opaque operands
SHAPES = """
(begin %e1)
(begin %e1 %e2)
(let () %b1)
(let () %b1 %b2)
(let ((%n1 %v1)) %b1)
(let ((%n1 %v1) (%n2 %v2)) %b1 %b2)
(let ((%n1 %v1)) ((%f %a)) %b2)
(let ((%n1 %v1) (%n2 %v2)) ((%f %a) (%g %b)) %b2 %b3)
(let* ((%n1 %v1) (%n2 %v2)) ((%f %a)) %b2)
(let* () %b1)
(let* ((%n1 %v1)) %b1)
(let* ((%n1 %v1) (%n2 %v2)) %b1)
(let* ((%n1 %v1) (%n2 %v2) (%n3 %v3)) %b1 %b2)
(and)
(and %e1)
(and %e1 %e2)
(and %e1 %e2 %e3)
(or)
(or %e1)
(or %e1 %e2)
(or %e1 %e2 %e3)
(when %t %e1)
(when %t %e1 %e2)
(when %t %e1 %e2 %e3)
(unless %t %e1)
(unless %t %e1 %e2)
(cond (%t1 %e1))
(cond (%t1 %e1 %e2))
(cond (%t1))
(cond (%t1 => %r1))
(cond (else %e1))
(cond (else %e1 %e2))
(cond (%t1 %e1) (%t2 %e2))
(cond (%t1 %e1) (else %e2))
(cond (%t1) (%t2 %e2))
(cond (%t1 => %r1) (else %e2))
(cond (%t1 %e1) (%t2 => %r2) (%t3) (else %e4))
(case %k ((%d1) %e1))
(case %k ((%d1 %d2) %e1 %e2))
(case %k ((%d1) => %r1))
(case %k (else %e1))
(case %k (else => %r1))
(case %k ((%d1) %e1) ((%d2) %e2))
(case %k ((%d1) %e1) (else %e2))
(case %k ((%d1) => %r1) (else %e2))
(case %k ((%d1) %e1) ((%d2) => %r2) (else => %r3))
(case (%f %k) ((%d1) %e1) (else %e2))
"""


def to_use(d, ops, quoted=False):
    if isinstance(d, Sym):
        if d.name.startswith("%"):
            o = Op(d.name[1:])
            o.datum = quoted
            ops.append(o)
            return o
        return Sym(d.name)
    if isinstance(d, list):
        out = SList()
        for i, x in enumerate(d):
            out.append(to_use(x, ops, quoted))
        return out
    return d


def uses():
    for d in read_all(SHAPES):
        ops = []
        kw = d[0].name
        u = SList([Sym(kw)])
        for i, x in enumerate(d[1:]):
            if kw == "case" and i >= 1 and isinstance(x, list) and x and isinstance(x[0], list):
                cl = SList([to_use(x[0], ops, True)] + [to_use(y, ops) for y in x[1:]])
                u.append(cl)
            else:
                u.append(to_use(x, ops))
        yield u, ops


def run(ctx, mf):
    ctx.rule("C05-coverage", "every R7RS clause shape is accepted by some bundled rule and expands to the reference behaviour")
    n_cases = 0
    for use, ops in uses():
        key = repr(use).replace("<", "").replace(">", "")
        try:
            core = semantics.expand(mf, use)
        except NoRule as e:
            ctx.inst("C05-coverage", key, {"accepted": False})
            ctx.report("C05-coverage", key, "the R7RS form %s is not accepted: %s (an ellipsis of this expander needs one or more items)" % (key, e),
                       "src/parser/grammar.sld")
            continue
        names = [o.name for o in ops if not getattr(o, "datum", False)]
        quoted = [o.name for o in ops if getattr(o, "datum", False)]
        dls = semantics.data_lists(use)
        dom = [(F, T, ("V", nm)) for nm in names]
        total = 1
        for d in dom:
            total *= len(d)
        if total * (2 ** len(dls)) > 3000:
            dom = [(F, ("V", nm)) for nm in names]
        atomic = set()
        if use[0].name == "case" and isinstance(use[1], Op):
            atomic = {use[1].name}
        bad = None
        for vals in itertools.product(*dom):
            assign = dict(zip(names, vals))
            for q in quoted:
                assign[q] = ("V", q)
            for mem in itertools.product([False, True], repeat=len(dls)):
                member = dict(zip(dls, mem))
                n_cases += 1
                sp = Spec(assign, member)
                want = sp.run(use)
                ev = Eval(assign, member)
                got = ev.ev(core, {}, set())
                tw, tg = semantics.filt(sp.trace, atomic), semantics.filt(ev.trace, atomic)
                if not ((want == U) or str(want) == str(got)) or tw != tg:
                    bad = (assign, member, want, tw, got, tg)
                    break
            if bad:
                break
        ctx.inst("C05-coverage", key, {"accepted": True, "agrees": bad is None})
        if bad:
            ctx.report("C05-coverage", key + "/behaviour", "the expansion of %s disagrees with R7RS for operand values %s: expected value %s "
                       "with evaluations %s, the expansion gives %s with %s" % (key, {k: v for k, v in bad[0].items()}, bad[2], bad[3], bad[4], bad[5]),
                       "src/parser/grammar.sld")
    ctx.extra_cov["coverage_cases"] = n_cases
    ctx.floor("C05-coverage", 40)
