"""Static model of a file of `define-syntax`/`syntax-rules` definitions and abstract expansion of templates.

Expander semantics class (from the property C04 and re-checked against the Rust expander by the C05 check):
non-hygienic (template symbols are emitted as written), an ellipsis matches ONE or more items, the keyword is
spelled out at the head of every pattern."""
from .reader import Sym, Lit, Dotted, Vec, SList, read_all

CORE = {"lambda", "if", "quote", "set!", "define", "define-syntax", "define-library", "import"}


class Rule:
    def __init__(self, keyword, literals, pattern, template, index):
        self.keyword = keyword
        self.literals = literals
        self.pattern = pattern      # SList, head = keyword
        self.template = template
        self.index = index
        self.vars = {}              # pattern variable -> ellipsis depth
        collect_vars(pattern[1:], literals, 0, self.vars)

    def __repr__(self):
        return "<rule %s#%d %r>" % (self.keyword, self.index, self.pattern)


def collect_vars(items, literals, depth, out):
    i = 0
    while i < len(items):
        it = items[i]
        ell = i + 1 < len(items) and isinstance(items[i + 1], Sym) and items[i + 1].name == "..."
        d = depth + (1 if ell else 0)
        if isinstance(it, Sym):
            if it.name not in ("...", "_") and it.name not in literals:
                out[it.name] = d
        elif isinstance(it, list):
            collect_vars(it, literals, d, out)
        elif isinstance(it, Vec):
            collect_vars(it.items, literals, d, out)
        elif isinstance(it, Dotted):
            collect_vars(it.items, literals, d, out)
            collect_vars([it.tail], literals, d, out)
        i += 2 if ell else 1


class MacroFile:
    def __init__(self, text, path=""):
        self.path = path
        self.problems = []
        self.forms = read_all(text)
        self.macros = {}   # keyword -> list of Rule
        self.order = []
        for f in self.forms:
            if not (isinstance(f, list) and len(f) == 3 and f[0] == Sym("define-syntax") and isinstance(f[1], Sym)):
                self.problems.append(("toplevel", "form at %s is not (define-syntax name (syntax-rules ...))" % (getattr(f, "pos", None),)))
                continue
            kw = f[1].name
            sr = f[2]
            if not (isinstance(sr, list) and len(sr) >= 2 and sr[0] == Sym("syntax-rules") and isinstance(sr[1], list)):
                self.problems.append((kw, "transformer spec of %s is not (syntax-rules (literals ...) rules ...)" % kw))
                continue
            lits = set()
            for l in sr[1]:
                if isinstance(l, Sym):
                    lits.add(l.name)
                else:
                    self.problems.append((kw, "non-identifier in the literals list of %s" % kw))
            rules = []
            for i, r in enumerate(sr[2:]):
                if not (isinstance(r, list) and len(r) == 2 and isinstance(r[0], list) and r[0]):
                    self.problems.append((kw, "rule %d of %s is not (pattern template) with a list pattern" % (i, kw)))
                    continue
                if not (isinstance(r[0][0], Sym) and r[0][0].name == kw):
                    self.problems.append((kw, "pattern %d of %s does not start with the keyword (the parser rejects it: "
                                              "MacroKeywordMissMatch)" % (i, kw)))
                    continue
                rules.append(Rule(kw, lits, r[0], r[1], i))
            if kw in self.macros:
                self.problems.append((kw, "%s is defined twice" % kw))
            self.macros[kw] = rules
            self.order.append(kw)

    # ---- well-formedness inside the expander's supported class
    def wellformed(self):
        out = list(self.problems)
        for kw, rules in self.macros.items():
            for r in rules:
                out += [(kw, "rule %d: %s" % (r.index, m)) for m in check_pattern(r.pattern[1:], r.literals, top=True)]
                tv = {}
                out += [(kw, "rule %d: %s" % (r.index, m)) for m in check_template(r.template, r, 0, tv)]
        return out


def check_pattern(items, literals, top=False):
    msgs = []
    n_ell = sum(1 for it in items if isinstance(it, Sym) and it.name == "...")
    if n_ell > 1:
        msgs.append("more than one ellipsis in one (sub)list pattern")
    for i, it in enumerate(items):
        if isinstance(it, Sym) and it.name == "...":
            if i == 0:
                msgs.append("ellipsis without a preceding sub-pattern")
            elif i != len(items) - 1:
                msgs.append("ellipsis is not in final position (outside the expander's supported class)")
            elif isinstance(items[i - 1], Sym) and items[i - 1].name in literals:
                msgs.append("ellipsis after a literal")
        elif isinstance(it, list):
            msgs += check_pattern(it, literals)
        elif isinstance(it, Dotted):
            msgs.append("dotted pattern (pop_proper rejects improper patterns at the head; outside the supported class)")
        elif isinstance(it, Vec):
            msgs += check_pattern(it.items, literals)
    return msgs


def check_template(t, rule, depth, seen):
    msgs = []
    if isinstance(t, Sym):
        if t.name == "...":
            msgs.append("stray ellipsis in template")
        elif t.name in rule.vars:
            if rule.vars[t.name] != depth:
                msgs.append("pattern variable %s has ellipsis depth %d in the pattern but %d in the template" % (t.name, rule.vars[t.name], depth))
    elif isinstance(t, (list, Vec)):
        items = t.items if isinstance(t, Vec) else t
        i = 0
        while i < len(items):
            it = items[i]
            ell = i + 1 < len(items) and isinstance(items[i + 1], Sym) and items[i + 1].name == "..."
            if isinstance(it, Sym) and it.name == "...":
                msgs.append("ellipsis without a preceding sub-template")
                i += 1
                continue
            if ell:
                vs = template_vars(it, rule)
                if not any(rule.vars.get(v, 0) > depth for v in vs):
                    msgs.append("sub-template followed by an ellipsis mentions no ellipsis variable")
            msgs += check_template(it, rule, depth + (1 if ell else 0), seen)
            i += 2 if ell else 1
    elif isinstance(t, Dotted):
        msgs.append("dotted template")
    return msgs


def template_vars(t, rule):
    out = set()
    if isinstance(t, Sym):
        if t.name in rule.vars:
            out.add(t.name)
    elif isinstance(t, (list, Vec)):
        for x in (t.items if isinstance(t, Vec) else t):
            out |= template_vars(x, rule)
    return out


# ============================================================================================= abstract trees


class PVar:
    """occurrence of a pattern variable of the rule under analysis"""

    def __init__(self, name, pos=None):
        self.name = name
        self.pos = pos

    def __repr__(self):
        return "?" + self.name


class Seq:
    """`x ...` : one or more repetitions of x"""

    def __init__(self, item):
        self.item = item

    def __repr__(self):
        return "%r..." % (self.item,)


def to_raw(t, rule):
    """template datum -> raw tree: Sym / Lit / PVar / list (with Seq elements) / Vec"""
    if isinstance(t, Sym):
        return PVar(t.name, t.pos) if t.name in rule.vars else t
    if isinstance(t, list):
        out = SList()
        out.pos = getattr(t, "pos", None)
        i = 0
        while i < len(t):
            it = t[i]
            ell = i + 1 < len(t) and isinstance(t[i + 1], Sym) and t[i + 1].name == "..."
            r = to_raw(it, rule)
            out.append(Seq(r) if ell else r)
            i += 2 if ell else 1
        return out
    if isinstance(t, Vec):
        return Vec([to_raw(x, rule) for x in t.items], t.pos)
    return t


# --------------------------------------------------------------------------------------------- abstract matching

MATCH, NOMATCH, UNKNOWN = "match", "nomatch", "unknown"


def amatch_list(pats, literals, elems, b):
    """match a pattern item list against raw elements; returns MATCH/NOMATCH/UNKNOWN and fills b"""
    has_ell = len(pats) >= 2 and isinstance(pats[-1], Sym) and pats[-1].name == "..."
    fixed = pats[:-2] if has_ell else pats
    any_seq = any(isinstance(e, Seq) for e in elems)
    # elements covered by the fixed part must not be sequences of unknown length
    if len(elems) < len(fixed) + (1 if has_ell else 0):
        if any_seq:
            return UNKNOWN       # a sequence may supply more items
        return NOMATCH
    if not has_ell and len(elems) > len(fixed):
        return NOMATCH
    if not has_ell and any_seq:
        return UNKNOWN           # `x ...` has at least one item, possibly more than the pattern takes
    res = MATCH
    for p, e in zip(fixed, elems):
        if isinstance(e, Seq):
            return UNKNOWN
        r = amatch(p, literals, e, b)
        if r == NOMATCH:
            return NOMATCH
        if r == UNKNOWN:
            res = UNKNOWN
    if has_ell:
        rep = pats[-2]
        rest = elems[len(fixed):]
        subs = []
        for e in rest:
            inner = e.item if isinstance(e, Seq) else e
            sb = {}
            r = amatch(rep, literals, inner, sb)
            if r == NOMATCH:
                return NOMATCH
            if r == UNKNOWN:
                res = UNKNOWN
            subs.append((sb, isinstance(e, Seq)))
        vs = {}
        collect_vars([rep], literals, 0, vs)
        for v in vs:
            lst = []
            for sb, is_seq in subs:
                val = sb.get(v)
                if isinstance(val, list) and vs[v] > 0 and not isinstance(val, SList):
                    lst += [Seq(x) if is_seq else x for x in val]
                else:
                    lst.append(Seq(val) if is_seq else val)
            b[v] = lst
    return res


def amatch(p, literals, e, b):
    if isinstance(p, Sym):
        if p.name == "_":
            return MATCH
        if p.name in literals:
            if isinstance(e, Sym):
                return MATCH if e.name == p.name else NOMATCH
            if isinstance(e, PVar):
                return UNKNOWN
            return NOMATCH
        b[p.name] = e
        return MATCH
    if isinstance(p, list):
        if isinstance(e, PVar):
            return UNKNOWN
        if not isinstance(e, list):
            return NOMATCH
        return amatch_list(list(p), literals, list(e), b)
    if isinstance(p, Lit):
        if isinstance(e, Lit):
            return MATCH if e == p else NOMATCH
        if isinstance(e, PVar):
            return UNKNOWN
        return NOMATCH
    return UNKNOWN


def instantiate(t, rule, b):
    """instantiate rule.template datum `t` with bindings b (values are raw trees / lists of raw trees)"""
    if isinstance(t, Sym):
        if t.name in rule.vars and t.name in b:
            return b[t.name]
        return t
    if isinstance(t, list):
        out = SList()
        out.pos = getattr(t, "pos", None)
        i = 0
        while i < len(t):
            it = t[i]
            ell = i + 1 < len(t) and isinstance(t[i + 1], Sym) and t[i + 1].name == "..."
            if ell:
                vs = [v for v in template_vars(it, rule) if rule.vars.get(v, 0) > 0]
                n = max((len(b.get(v, [])) for v in vs), default=0)
                for k in range(n):
                    bk = dict(b)
                    seq = False
                    for v in vs:
                        val = b[v][k] if k < len(b.get(v, [])) else None
                        if isinstance(val, Seq):
                            seq = True
                            val = val.item
                        bk[v] = val
                    inst = instantiate(it, rule, bk)
                    out.append(Seq(inst) if seq else inst)
            else:
                out.append(instantiate(it, rule, b))
            i += 2 if ell else 1
        return out
    return t


def expand_once(mf, form, stack):
    """Try to expand a raw form whose head is a derived keyword with the bundled rules.
    Returns the instantiated raw tree, or None when the choice of rule is not determined abstractly."""
    kw = form[0].name
    if kw in stack:
        return None
    for r in mf.macros.get(kw, []):
        b = {}
        res = amatch_list(list(r.pattern[1:]), r.literals, list(form[1:]), b)
        if res == NOMATCH:
            continue
        if res == UNKNOWN:
            return None
        return instantiate(r.template, r, b)
    return None
