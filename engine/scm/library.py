"""Engine C: static analysis of the bundled library sources (scheme/base.sld, scheme/write.sld).

The body of a library is expanded to core forms with the bundled derived forms (grammar.sld) by the independent expander of
semantics.py, then analysed: lexical scope resolution against the library's definitions, its imports (the native
registration table) and parameters; call arity; spelling of the c[ad]{2,3}r compositions; structural-recursion shape of the
list procedures."""
import os
from .reader import read_all, Sym, Lit, SList, Dotted, Vec
from . import semantics, derived

BASE = "src/interpreter/library/include/scheme/base.sld"
WRITE = "src/interpreter/library/include/scheme/write.sld"


class Lib:
    def __init__(self, text, path):
        self.path = path
        self.problems = []
        forms = read_all(text)
        self.name = None
        self.imports = []
        self.exports = []      # (internal, external)
        self.body = []
        libs = [f for f in forms if isinstance(f, list) and f and f[0] == Sym("define-library")]
        if len(libs) != 1:
            self.problems.append("expected exactly one define-library form, found %d" % len(libs))
            return
        f = libs[0]
        self.name = f[1]
        for decl in f[2:]:
            if not isinstance(decl, list) or not decl or not isinstance(decl[0], Sym):
                self.problems.append("malformed library declaration %r" % (decl,))
                continue
            k = decl[0].name
            if k == "import":
                self.imports += decl[1:]
            elif k == "export":
                for e in decl[1:]:
                    if isinstance(e, Sym):
                        self.exports.append((e.name, e.name))
                    elif isinstance(e, list) and len(e) == 3 and e[0] == Sym("rename"):
                        self.exports.append((e[1].name, e[2].name))
                    else:
                        self.problems.append("malformed export spec %r" % (e,))
            elif k == "begin":
                self.body += decl[1:]
            else:
                self.problems.append("unsupported library declaration %s" % k)
        self.defs = {}         # name -> (formals | None, body forms)  (formals: (fixed list, rest or None))
        self.def_order = []
        for d in self.body:
            if isinstance(d, list) and d and d[0] == Sym("define") and len(d) >= 3:
                target = d[1]
                if isinstance(target, Sym):
                    val = d[2]
                    if isinstance(val, list) and val and val[0] == Sym("lambda"):
                        self.defs[target.name] = (formals_of(val[1]), list(val[2:]))
                    else:
                        self.defs[target.name] = (None, [val])
                    self.def_order.append(target.name)
                elif isinstance(target, (list, Dotted)):
                    if isinstance(target, Dotted):
                        name = target.items[0]
                        fm = ([x.name for x in target.items[1:]], target.tail.name if isinstance(target.tail, Sym) else None)
                    else:
                        name = target[0]
                        fm = ([x.name for x in target[1:]], None)
                    self.defs[name.name] = (fm, list(d[2:]))
                    self.def_order.append(name.name)
            else:
                self.problems.append("non-definition form in library body: %r" % (d,))


def formals_of(f):
    if isinstance(f, Sym):
        return ([], f.name)
    if isinstance(f, Dotted):
        return ([x.name for x in f.items], f.tail.name if isinstance(f.tail, Sym) else None)
    if isinstance(f, list):
        return ([x.name for x in f if isinstance(x, Sym)], None)
    return ([], None)


def load(rel, repo=None):
    repo = repo or os.environ.get("VERIF_REPO", "/repo")
    p = os.path.join(repo, rel)
    with open(p) as fh:
        return Lib(fh.read(), p)


def core(mf, form):
    """expand derived forms inside a body form (operands are ordinary data here)"""
    return semantics.expand(mf, form)


# --------------------------------------------------------------------------------------------- scope analysis


def free_vars(t, bound, out, calls, mf_keywords):
    """collect free identifiers of a core term; calls: list of (operator name, n args, has_apply)"""
    if isinstance(t, Sym):
        if t.name not in bound:
            out.add(t.name)
        return
    if not isinstance(t, list) or not t:
        return
    h = t[0]
    if isinstance(h, Sym) and h.name not in bound:
        if h.name == "quote":
            return
        if h.name == "lambda":
            fx, rest = formals_of(t[1])
            nb = set(bound) | set(fx) | ({rest} if rest else set())
            # internal defines are visible in the whole body
            for e in t[2:]:
                if isinstance(e, list) and e and e[0] == Sym("define"):
                    tg = e[1]
                    nb.add(tg.name if isinstance(tg, Sym) else (tg[0].name if isinstance(tg, list) else tg.items[0].name))
            for e in t[2:]:
                free_vars(e, nb, out, calls, mf_keywords)
            return
        if h.name == "if":
            for e in t[1:]:
                free_vars(e, bound, out, calls, mf_keywords)
            return
        if h.name == "set!":
            if t[1].name not in bound:
                out.add(t[1].name)
            free_vars(t[2], bound, out, calls, mf_keywords)
            return
        if h.name == "define":
            tg = t[1]
            if isinstance(tg, Sym):
                for e in t[2:]:
                    free_vars(e, bound, out, calls, mf_keywords)
            else:
                lam = SList([Sym("lambda"), SList(tg[1:]) if isinstance(tg, list) else Dotted(tg.items[1:], tg.tail)] + list(t[2:]))
                free_vars(lam, bound, out, calls, mf_keywords)
            return
    if isinstance(h, Sym):
        calls.append((h.name, len(t) - 1, h.name in bound, t))
    for e in t:
        free_vars(e, bound, out, calls, mf_keywords)


def analyse_def(mf, lib, name):
    fm, body = lib.defs[name]
    bound = set()
    if fm:
        bound |= set(fm[0]) | ({fm[1]} if fm[1] else set())
    free, calls = set(), []
    cbody = [core(mf, e) for e in body]
    # internal definitions are visible in the whole body (as in a lambda body, free_vars)
    for c in cbody:
        if isinstance(c, list) and len(c) > 1 and c[0] == Sym("define"):
            tg = c[1]
            nm = tg.name if isinstance(tg, Sym) else (tg[0].name if isinstance(tg, list) and tg else (tg.items[0].name if isinstance(tg, Dotted) else None))
            if nm:
                bound.add(nm)
    for c in cbody:
        free_vars(c, bound, free, calls, set(mf.macros))
    return free, calls, cbody, bound


def bundled_wellformed(repo=None):
    """used by C07 (D-const-input): the bundled libraries read as single define-library forms and expand without residue"""
    try:
        mf = derived.load(repo)
        for rel in (BASE, WRITE):
            lib = load(rel, repo)
            if lib.problems:
                return False, "%s: %s" % (rel, lib.problems[0])
            for n in lib.defs:
                analyse_def(mf, lib, n)
        return True, ""
    except Exception as e:  # ReadError / NoRule
        return False, "%s" % (e,)


# --------------------------------------------------------------------------------------------- recursion shapes


def paths(t, cond=()):
    """enumerate (path condition, expression) leaves of the if-tree of a core term in tail/value position"""
    if isinstance(t, list) and t and t[0] == Sym("if"):
        yield from paths(t[2], cond + ((repr(t[1]), True, t[1]),))
        if len(t) > 3:
            yield from paths(t[3], cond + ((repr(t[1]), False, t[1]),))
        else:
            yield (cond + ((repr(t[1]), False, t[1]),), None)
        return
    if isinstance(t, list) and t and isinstance(t[0], list) and t[0] and t[0][0] == Sym("lambda") and len(t) > 1 and len(t[0]) >= 3 \
            and isinstance(t[0][1], list) and len(t[0][1]) == len(t) - 1:
        # ((lambda (v ...) body ... last) e ...): a let; the value is that of the last body expression
        yield from paths(t[0][-1], cond)
        return
    if isinstance(t, list) and t and isinstance(t[0], list) and t[0] and t[0][0] == Sym("lambda") and len(t) == 1 and not t[0][1]:
        # ((lambda () e1 ... en)) : a sequence; a single expression is that expression
        if len(t[0]) == 3:
            yield from paths(t[0][2], cond)
        else:
            yield (cond, t)
        return
    yield (cond, t)


def subterms(t):
    yield t
    if isinstance(t, list):
        if t and t[0] == Sym("quote"):
            return
        for x in t:
            yield from subterms(x)


def count_calls(t, name):
    return sum(1 for s in subterms(t) if isinstance(s, list) and s and isinstance(s[0], Sym) and s[0].name == name)


def eval_order(t):
    """call nodes of a core term in evaluation order (operator, operands left to right, then the call;
    for ((lambda formals body...) args...) the arguments come before the body)"""
    if not isinstance(t, list) or not t:
        return
    h = t[0]
    if isinstance(h, Sym):
        if h.name == "quote":
            return
        if h.name == "lambda":
            return                      # a lambda value: body not evaluated here
        if h.name == "if":
            for e in t[1:]:
                yield from eval_order(e)
            return
        if h.name in ("define", "set!"):
            for e in t[2:]:
                yield from eval_order(e)
            return
    if isinstance(h, list) and h and h[0] == Sym("lambda"):
        for a in t[1:]:
            yield from eval_order(a)
        for e in h[2:]:
            yield from eval_order(e)
        return
    for e in t:
        yield from eval_order(e)
    yield t
