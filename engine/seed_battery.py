#!/usr/bin/env python3
"""seed_battery.py [-j N] [--skip-tests] [ids...]: re-evaluate every seeded change in seeded/<id>/ (not benign/) against the
current /repo and the current checks: the patch must apply, build, pass the pinned tests and be reported by the check of the
property it breaks.  Rewrites eval.json and the caught_by/silent fields of meta.json.  Exit 1 if a seed is missed."""
import json, os, subprocess, sys, concurrent.futures as cf
VERIF = os.path.dirname(os.path.dirname(os.path.abspath(__file__)))
args = sys.argv[1:]
jobs = 4
if "-j" in args:
    jobs = int(args[args.index("-j") + 1]); del args[args.index("-j"):args.index("-j") + 2]
skip = "--skip-tests" in args
ids = [a for a in args if not a.startswith("--")] or sorted(d for d in os.listdir(os.path.join(VERIF, "seeded"))
                                                           if d != "benign" and os.path.exists(os.path.join(VERIF, "seeded", d, "patch.diff")))


def one(sid):
    d = os.path.join(VERIF, "seeded", sid)
    meta = json.load(open(os.path.join(d, "meta.json"))) if os.path.exists(os.path.join(d, "meta.json")) else {}
    props = [meta.get("breaks_property", sid.split("-")[0])]
    for c in meta.get("caught_by", []):
        if c["property"] not in props:
            props.append(c["property"])
    cmd = [os.path.join(VERIF, "engine", "seed_eval.py"), sid, os.path.join(d, "patch.diff"), "--props", ",".join(props)]
    if skip:
        cmd.append("--skip-tests")
    r = subprocess.run(cmd, capture_output=True, text=True)
    try:
        ev = json.loads(r.stdout[r.stdout.index("{"):])
    except Exception:
        return sid, None, r.stdout[-300:] + r.stderr[-300:]
    if skip:
        old = json.load(open(os.path.join(d, "eval.json")))
        for k in ("builds", "tests_pass", "test_lines"):
            ev[k] = old.get(k)
    json.dump(ev, open(os.path.join(d, "eval.json"), "w"), indent=1)
    if meta:
        meta["caught_by"] = [{"property": c["property"], "rules": sorted({x.split(":")[0] for x in c["reports"]})} for c in ev["caught_by"]]
        meta["silent"] = ev.get("silent", [])
        json.dump(meta, open(os.path.join(d, "meta.json"), "w"), indent=1)
    return sid, ev, props[0]


bad = 0
with cf.ThreadPoolExecutor(max_workers=jobs) as ex:
    for sid, ev, info in ex.map(one, ids):
        if ev is None:
            print("%s: ERROR %s" % (sid, info)); bad += 1; continue
        caught = [c["property"] for c in ev["caught_by"]]
        ok = ev["applies"] and (skip or ev["tests_pass"]) and info in caught
        print("%-7s applies=%s tests=%s caught_by=%s%s" % (sid, ev["applies"], ev["tests_pass"], caught, "" if ok else "   <-- MISSED/INVALID"))
        bad += not ok
sys.exit(1 if bad else 0)
