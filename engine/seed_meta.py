#!/usr/bin/env python3
"""seed_meta.py <seed-id> <property> <needs-to-manifest text> [note]  : write seeded/<id>/meta.json from eval.json"""
import json, os, sys
VERIF = os.path.dirname(os.path.dirname(os.path.abspath(__file__)))
sid, prop, needs = sys.argv[1], sys.argv[2], sys.argv[3]
note = sys.argv[4] if len(sys.argv) > 4 else None
d = os.path.join(VERIF, "seeded", sid)
ev = json.load(open(os.path.join(d, "eval.json")))
meta = {
    "seed": sid,
    "breaks_property": prop,
    "origin": "independent sub-agent given only the property text and a scratch worktree of /repo",
    "needs_to_manifest": needs,
    "confirmed": {
        "applies_to_repo_head": ev["applies"],
        "builds_and_pinned_tests_pass": ev["tests_pass"],
        "demonstration": "run by the sub-agent in both directions (see README.md); re-confirmed here: patch applies to /repo HEAD, "
                         "cargo test --workspace --no-fail-fast --offline passes",
    },
    "what_was_run": "engine/seed_store.sh (engine/seed_eval.py %s seeded/%s/patch.diff): scratch copy of /repo + patch, pinned tests, then ./check for the listed properties with VERIF_REPO=<scratch>" % (sid, sid),
    "caught_by": [{"property": c["property"], "rules": sorted({r.split(":")[0] for r in c["reports"]})} for c in ev["caught_by"]],
    "silent": ev.get("silent", []),
}
if note:
    meta["note"] = note
json.dump(meta, open(os.path.join(d, "meta.json"), "w"), indent=1)
print(json.dumps(meta["caught_by"]))
