#!/bin/sh
# Build the framework from files on disk only (offline).
set -e
cd "$(dirname "$0")"
export CARGO_NET_OFFLINE=true
(cd engine/factsdrv && cargo build --release --offline)
# warm the dependency cache + fact cache for the current tree (also a smoke test of the driver)
python3 engine/rules/facts.py dev
echo setup-ok
